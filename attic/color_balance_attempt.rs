//! C13 (callback balance): skrifa's COLR paint-graph traversal (`traverse_with_callbacks`), driven
//! through the public entry points ColorGlyphCollection::get_with_format() + ColorGlyph::paint()
//! with a recording ColorPainter, over ARBITRARY paint graphs of K nodes.
//! Pulled into skrifa/src/color/mod.rs as `mod verif_harness` under
//! `--cfg googlefonts_fontations_verif`.
//!
//! @assume paint DECODING is replaced by a nondeterministic (but deterministic-per-node) environment: under the cfg guard, instance::resolve_paint() is replaced by resolve_node(), which maps the paint's position in the table to node k of a symbolic graph description GRAPH[k] = (kind: any of the 13 ResolvedPaint variants or a read error, children, layer range, referenced glyph, composite mode, center flag); decoding of real paint bytes is decided separately (C01 table walkers for every Paint format). The traversal itself, the cycle guard, Colr::v1_layer / v1_base_glyph (on a real 70-byte COLR v1 table whose LayerList and BaseGlyphList point at the nodes), CollectFillGlyphPainter and ColorGlyph::paint are the real code
//! @assume direct child edges (PaintGlyph / transforms / PaintComposite) point at a node with a larger index (acyclic by construction; the real code has no guard on those edges other than the depth limit 64, which is outside the bound); edges through PaintColrLayers and PaintColrGlyph may point anywhere, including back (cycles), and are the ones the cycle guard protects
//! @assume clip boxes: get_clipbox_font_units() is replaced by clipbox(): present / absent per glyph is symbolic (deterministic per glyph id)
//! @assume numeric payloads (coordinates, transforms, alpha) are concrete; gradients have zero colour stops; location = default
//! @assume the client's paint_cached_color_glyph returns a symbolic choice of Ok(Ok) / Ok(Unimplemented) / Err
#![allow(unused, clippy::all)]

#[cfg(not(kani))]
#[path = "/verif/harness/shim/shim.rs"]
mod kani;

use super::instance::{ColrInstance, ResolvedPaint};
use super::*;
use raw::tables::colr::{ColorLine, Paint};
use raw::types::{GlyphId16, Point};
use raw::{FontData, FontRead, ReadError};

const K: usize = 3; // nodes
const BGL: usize = 34; // BaseGlyphList: u32 count + 2 * (u16 glyph, Offset32) -> 50
const LL: usize = 50; // LayerList: u32 count + 2 * Offset32 -> 62
const LINE: usize = 62; // ColorLine: extend, numStops = 0 -> 65
const P: usize = 65; // node k is the PaintSolid record that starts at P + k (overlapping records, all bytes 2)
const N: usize = P + K - 1 + 5 + 8 * K + 1;
const G0: u16 = 5; // base glyph whose paint is node 0 (the root)
const G1: u16 = 9; // base glyph whose paint is node 1

#[derive(Clone, Copy)]
pub(crate) struct Node {
    kind: u8,
    err: bool,
    c1: u8,
    c2: u8,
    first: u8,
    num: u8,
    glyph: u8,
    mode: u8,
    center: bool,
}

const NODE0: Node = Node { kind: 1, err: false, c1: 0, c2: 0, first: 0, num: 0, glyph: 0, mode: 0, center: false };

impl Node {
    fn pack(&self) -> u64 {
        u64::from_be_bytes([self.kind, self.err as u8 | (self.center as u8) << 1, self.c1, self.c2, self.first, self.num, self.glyph, self.mode])
    }
    fn unpack(v: u64) -> Self {
        let b = v.to_be_bytes();
        Node { kind: b[0], err: b[1] & 1 != 0, center: b[1] & 2 != 0, c1: b[2], c2: b[3], first: b[4], num: b[5], glyph: b[6], mode: b[7] }
    }
}

// skrifa forbids unsafe code and atomics defeat the model checker's constant propagation, so the
// environment (graph description, clip flags) travels inside the COLR table itself, after the
// real structures, and the overrides are active only for a table that carries the marker.
const MAGIC: u32 = 0x5645_5249; // stored in the (unused, v0) baseGlyphRecordsOffset field
const D: usize = P + K - 1 + 5; // node descriptions: K * 8 bytes
const CLIPS: usize = D + 8 * K; // clip flags: 1 byte

fn active(data: FontData) -> bool {
    // (plain slice reads: values taken out of a Result lose their constness in the model checker)
    let s = data.as_bytes();
    s.len() == N && s[4] == (MAGIC >> 24) as u8 && s[5] == (MAGIC >> 16) as u8 && s[6] == (MAGIC >> 8) as u8 && s[7] == MAGIC as u8
}

const MODES: [CompositeMode; 4] = [CompositeMode::Clear, CompositeMode::SrcOver, CompositeMode::Multiply, CompositeMode::Xor];

/// instance::resolve_paint() and traversal::get_clipbox_font_units() ask this first (under the
/// cfg guard) and, if true, return resolve_node() / clipbox() instead of decoding.
pub(crate) fn overrides_active(instance: &ColrInstance) -> bool {
    active((**instance).offset_data())
}

pub(crate) fn resolve_node<'a>(instance: &ColrInstance<'a>, paint: &Paint<'a>) -> Result<ResolvedPaint<'a>, ReadError> {
    let data: FontData<'a> = (**instance).offset_data();
    let addr = paint.offset_data().as_bytes().as_ptr() as usize;
    let idx = addr.wrapping_sub(data.as_bytes().as_ptr() as usize + P);
    if idx >= K {
        return Err(ReadError::OutOfBounds);
    }
    let s = data.as_bytes();
    let o = D + 8 * idx;
    let n = Node::unpack(u64::from_be_bytes([s[o], s[o + 1], s[o + 2], s[o + 3], s[o + 4], s[o + 5], s[o + 6], s[o + 7]]));
    if n.err {
        return Err(ReadError::OutOfBounds);
    }
    // (one decode per constant position: a decode at a symbolic position would make the model
    // checker walk all 32 paint formats)
    let child = |k: u8| -> Result<Paint<'a>, ReadError> {
        if k == 1 {
            Paint::read(data.split_off(P + 1).ok_or(ReadError::OutOfBounds)?)
        } else {
            Paint::read(data.split_off(P + 2).ok_or(ReadError::OutOfBounds)?)
        }
    };
    let line = || -> Result<ColorLine<'a>, ReadError> { ColorLine::read(data.split_off(LINE).ok_or(ReadError::OutOfBounds)?) };
    let center = if n.center { Some(Point::new(1.0f32, 2.0)) } else { None };
    Ok(match n.kind {
        0 => ResolvedPaint::ColrLayers { range: n.first as usize..n.first as usize + n.num as usize },
        1 => ResolvedPaint::Solid { palette_index: n.glyph as u16, alpha: 1.0 },
        2 => {
            let l = line()?;
            ResolvedPaint::LinearGradient { x0: 0.0, y0: 0.0, x1: 1.0, y1: 0.0, x2: 0.0, y2: 1.0, extend: l.extend(), color_stops: l.into() }
        }
        3 => {
            let l = line()?;
            ResolvedPaint::RadialGradient { x0: 0.0, y0: 0.0, radius0: 1.0, x1: 1.0, y1: 0.0, radius1: 2.0, extend: l.extend(), color_stops: l.into() }
        }
        4 => {
            let l = line()?;
            ResolvedPaint::SweepGradient { center_x: 0.0, center_y: 0.0, start_angle: 0.0, end_angle: 1.0, extend: l.extend(), color_stops: l.into() }
        }
        5 => ResolvedPaint::Glyph { glyph_id: GlyphId16::new(n.glyph as u16), paint: child(n.c1)? },
        6 => ResolvedPaint::ColrGlyph { glyph_id: GlyphId16::new(match n.glyph { 0 => G0, 1 => G1, _ => 7 }) },
        7 => ResolvedPaint::Transform { xx: 1.0, yx: 0.0, xy: 0.0, yy: 1.0, dx: 0.0, dy: 0.0, paint: child(n.c1)? },
        8 => ResolvedPaint::Translate { dx: 1.0, dy: 2.0, paint: child(n.c1)? },
        9 => ResolvedPaint::Scale { scale_x: 2.0, scale_y: 0.5, around_center: center, paint: child(n.c1)? },
        10 => ResolvedPaint::Rotate { angle: 0.5, around_center: center, paint: child(n.c1)? },
        11 => ResolvedPaint::Skew { x_skew_angle: 0.0, y_skew_angle: 0.0, around_center: center, paint: child(n.c1)? },
        _ => ResolvedPaint::Composite { source_paint: child(n.c1)?, mode: MODES[(n.mode & 3) as usize], backdrop_paint: child(n.c2)? },
    })
}

pub(crate) fn clipbox(instance: &ColrInstance, glyph_id: GlyphId) -> Option<BoundingBox<f32>> {
    let present = (**instance).offset_data().as_bytes()[CLIPS] >> (glyph_id.to_u32() & 1) & 1 != 0;
    if present {
        Some(BoundingBox { x_min: 0.0, y_min: 0.0, x_max: 10.0, y_max: 10.0 })
    } else {
        None
    }
}

fn put16(b: &mut [u8; N], at: usize, v: u16) {
    b[at] = (v >> 8) as u8;
    b[at + 1] = v as u8;
}
fn put32(b: &mut [u8; N], at: usize, v: usize) {
    b[at] = (v >> 24) as u8;
    b[at + 1] = (v >> 16) as u8;
    b[at + 2] = (v >> 8) as u8;
    b[at + 3] = v as u8;
}

fn put_node(b: &mut [u8; N], at: usize, n: Node) {
    let v = n.pack().to_be_bytes();
    b[at] = v[0];
    b[at + 1] = v[1];
    b[at + 2] = v[2];
    b[at + 3] = v[3];
    b[at + 4] = v[4];
    b[at + 5] = v[5];
    b[at + 6] = v[6];
    b[at + 7] = v[7];
}

/// The (concrete) COLR v1 table that carries the graph's indirect edges.
fn table() -> [u8; N] {
    let mut b = [0u8; N];
    put16(&mut b, 0, 1);
    put32(&mut b, 4, MAGIC as usize);
    put32(&mut b, 14, BGL);
    put32(&mut b, 18, LL);
    // base glyph list: G0 -> node 0, G1 -> node 1
    put32(&mut b, BGL, 2);
    put16(&mut b, BGL + 4, G0);
    put32(&mut b, BGL + 6, P - BGL);
    put16(&mut b, BGL + 10, G1);
    put32(&mut b, BGL + 12, P + 1 - BGL);
    // layer list: layer 0 -> node 1, layer 1 -> node K - 1
    put32(&mut b, LL, 2);
    put32(&mut b, LL + 4, P + 1 - LL);
    put32(&mut b, LL + 8, P + K - 1 - LL);
    // nodes: overlapping PaintSolid records
    // (written out: N - P = 7 bytes; a loop would need its own unwinding bound)
    b[P] = 2;
    b[P + 1] = 2;
    b[P + 2] = 2;
    b[P + 3] = 2;
    b[P + 4] = 2;
    b[P + 5] = 2;
    b[P + 6] = 2;
    b
}

fn any_node(idx: usize, wrappers: bool) -> Node {
    let n = Node {
        kind: kani::any(),
        err: kani::any(),
        c1: kani::any(),
        c2: kani::any(),
        first: kani::any(),
        num: kani::any(),
        glyph: kani::any(),
        mode: kani::any(),
        center: kani::any(),
    };
    kani::assume(n.kind <= 12);
    // direct edges go forward
    kani::assume((n.c1 as usize) > idx && (n.c1 as usize) < K && (n.c2 as usize) > idx && (n.c2 as usize) < K || !matches!(n.kind, 5 | 7..=12));
    if !wrappers {
        kani::assume(!matches!(n.kind, 5 | 7..=12));
    }
    kani::assume(n.first <= 2 && n.num <= 3 && n.glyph <= 2);
    n
}

const K_TRANSFORM: u8 = 1;
const K_CLIP: u8 = 2;
const K_LAYER: u8 = 16; // + composite mode

struct BalancePainter {
    stack: [u8; 16],
    depth: usize,
    underflow: bool,
    mismatch: bool,
    overflow: bool,
    cached: u8,
    calls: u32,
}

impl BalancePainter {
    fn new() -> Self {
        let cached: u8 = kani::any();
        kani::assume(cached < 3);
        Self { stack: [0; 16], depth: 0, underflow: false, mismatch: false, overflow: false, cached, calls: 0 }
    }
    fn push(&mut self, k: u8) {
        self.calls += 1;
        if self.depth < 16 {
            self.stack[self.depth] = k;
            self.depth += 1;
        } else {
            self.overflow = true;
        }
    }
    fn pop(&mut self, k: u8) {
        self.calls += 1;
        if self.depth == 0 {
            self.underflow = true;
        } else {
            self.depth -= 1;
            if self.stack[self.depth] != k {
                self.mismatch = true;
            }
        }
    }
}

impl ColorPainter for BalancePainter {
    fn push_transform(&mut self, _: Transform) {
        self.push(K_TRANSFORM)
    }
    fn pop_transform(&mut self) {
        self.pop(K_TRANSFORM)
    }
    fn push_clip_glyph(&mut self, _: GlyphId) {
        self.push(K_CLIP)
    }
    fn push_clip_box(&mut self, _: BoundingBox<f32>) {
        self.push(K_CLIP)
    }
    fn pop_clip(&mut self) {
        self.pop(K_CLIP)
    }
    fn fill(&mut self, _: Brush<'_>) {
        self.calls += 1;
    }
    // fill_glyph: the trait's default implementation (push_clip_glyph / fill / pop_clip)
    fn paint_cached_color_glyph(&mut self, _: GlyphId) -> Result<PaintCachedColorGlyph, PaintError> {
        match self.cached {
            0 => Ok(PaintCachedColorGlyph::Ok),
            1 => Ok(PaintCachedColorGlyph::Unimplemented),
            _ => Err(PaintError::DepthLimitExceeded),
        }
    }
    fn push_layer(&mut self, mode: CompositeMode) {
        self.push(K_LAYER + mode as u8)
    }
    fn pop_layer_with_mode(&mut self, mode: CompositeMode) {
        self.pop(K_LAYER + mode as u8)
    }
}

/// `wrappers`: which nodes may have direct children.
fn paint_and_check(wrappers: [bool; K]) {
    let mut b = table();
    // (straight-line writes at constant positions)
    put_node(&mut b, D, any_node(0, wrappers[0]));
    put_node(&mut b, D + 8, any_node(1, wrappers[1]));
    put_node(&mut b, D + 16, any_node(2, false));
    b[CLIPS] = kani::any();
    let colr = colr::Colr::read(FontData::new(&b)).unwrap();
    let (paint, id) = colr.v1_base_glyph(GlyphId::new(G0 as u32)).unwrap().unwrap();
    let glyph = ColorGlyph { colr: colr.clone(), root_paint_ref: ColorGlyphRoot::V1Paint(paint, id, GlyphId::new(G0 as u32), Ok(1000)) };
    let mut painter = BalancePainter::new();
    let r = glyph.paint(LocationRef::default(), &mut painter);
    if r.is_ok() {
        assert!(!painter.underflow, "a callback popped what was not pushed");
        assert!(!painter.mismatch, "pops are not in last-in-first-out order");
        assert!(painter.depth == 0, "a pushed transform, clip or layer was never popped");
    }
    assert!(!painter.overflow);
    kani::cover!(r.is_ok() && painter.calls >= 4, "successful paint with nested callbacks");
    kani::cover!(matches!(r, Err(PaintError::PaintCycleDetected)), "cycle reported");
}

// @bound every paint graph whose root is any node kind over leaf-kind nodes 1 and 2 (leaf kinds: solid, gradients, PaintColrLayers with any range in 0..=2 + 0..=3, PaintColrGlyph to the root / node 1 / a missing glyph); unwind 10
#[cfg_attr(kani, kani::proof)]
#[cfg_attr(kani, kani::unwind(10))]
pub fn c13_paint_graph_root_over_leaves() {
    paint_and_check([true, false, false]);
}

// @tier thorough
// @timeout 3000
// @bound every paint graph of 3 nodes: root and node 1 of any kind, node 2 a leaf kind; unwind 10
#[cfg_attr(kani, kani::proof)]
#[cfg_attr(kani, kani::unwind(10))]
pub fn c13_paint_graph_3_nodes() {
    paint_and_check([true, true, false]);
}

#[cfg(all(test, not(kani)))]
include!("color_dispatch.rs");

#[cfg(all(test, not(kani)))]
#[test]
fn verif_replay() {
    let Ok(path) = std::env::var("VERIF_REPLAY_FILE") else {
        return;
    };
    let (name, vals) = kani::read_replay_file(&path);
    if let Some(f) = verif_dispatch(&name) {
        kani::load(vals);
        f();
        println!("VERIF-REPLAY-COMPLETED");
    }
}



