#!/bin/bash
# Offline setup: nothing to fetch. Make sure the driver is executable and tool versions are visible.
set -e
cd "$(dirname "$0")"
chmod +x vf
export CARGO_NET_OFFLINE=true
cargo kani --version
python3 --version
mkdir -p .build evidence replay
echo setup ok
