#!/usr/bin/env python3
"""Generate the C01 table walker + one Kani harness per FontRead / FontReadWithArgs impl from
/repo/read-fonts's *current* sources (generated and hand-written).

For every type with inherent `impl` blocks under read-fonts/src/tables (and the generated files
they include) an `impl Walk for T` is emitted that calls every `pub fn name(&self, <args>)`
whose arguments can be synthesised (symbolic scalars, glyph ids, tags, coords, the enclosing
table's FontData).  For every `impl FontRead[WithArgs] for T` a harness is emitted that reads T
from a symbolic buffer of symbolic length (and symbolic args) and walks the result.

The output is type-checked natively (`cargo check`) and lines rustc rejects (private items,
unsupported generics, ...) are pruned and listed, so that a change in /repo can never break the
build of the harness crate — it can only change what is covered, which the evidence reports.
"""
import json
import os
import re
import subprocess
import sys

VERIF = os.path.dirname(os.path.dirname(os.path.abspath(__file__)))
REPO = os.environ.get("VERIF_REPO", "/repo")
RF = os.path.join(REPO, "read-fonts")
OUT = os.path.join(VERIF, "harness", "k_read", "src")
REPORT = os.path.join(VERIF, ".build", "gen_read_walk_report.json")

# symbolic buffer size / walk depth per tier are compile-time constants of the harness crate
DEFAULT_N = 24
DEFAULT_HW_N = 16

SKIP_MODULE_FILES = {"spec_tests.rs", "tests.rs", "closure.rs"}  # closure.rs: needs IntSet/HashSet arguments

ARG_EXPR = {
    "u8": "kani::any::<u8>()", "u16": "kani::any::<u16>()", "u32": "kani::any::<u32>()",
    "usize": "kani::any::<usize>()", "i16": "kani::any::<i16>()", "i32": "kani::any::<i32>()",
    "u64": "kani::any::<u64>()", "bool": "kani::any::<bool>()", "i8": "kani::any::<i8>()",
    "GlyphId": "GlyphId::new(kani::any())", "GlyphId16": "GlyphId16::new(kani::any())",
    "impl Into<GlyphId>": "GlyphId::new(kani::any())", "impl Into<u32>": "kani::any::<u32>()",
    "impl Into<GlyphId16>": "GlyphId16::new(kani::any())",
    "Tag": "Tag::from_be_bytes(kani::any())", "Fixed": "Fixed::from_bits(kani::any())",
    "F2Dot14": "F2Dot14::from_bits(kani::any())", "FontData<'a>": "cx.data", "FontData": "cx.data",
    "FontData<'_>": "cx.data",
    "Offset16": "Offset16::new(kani::any())", "Offset32": "Offset32::new(kani::any())",
    "Offset24": "Offset24::new(Uint24::new(kani::any()))", "Uint24": "Uint24::new(kani::any())",
    "NameId": "NameId::new(kani::any())", "&[F2Dot14]": "crate::walk::coords(&__coords)",
    "MajorMinor": "MajorMinor::new(kani::any(), kani::any())",
    "Version16Dot16": "<Version16Dot16 as Scalar>::from_raw(kani::any())",
    "ValueFormat": "read_fonts::tables::gpos::ValueFormat::from_bits_truncate(kani::any())",
    "Int24": "Int24::new(kani::any())", "FWord": "FWord::new(kani::any())",
    "i64": "kani::any::<i64>()", "char": "kani::any::<char>()",
}


def rd(p):
    with open(p) as f:
        return f.read()


def discover_modules():
    """-> list of (module path 'tables::avar', [source files])"""
    mods = []
    tdir = os.path.join(RF, "src", "tables")
    declared = set(re.findall(r"^pub mod (\w+);", rd(os.path.join(RF, "src", "tables.rs")), re.M))
    allfiles = sorted(f for f in os.listdir(tdir) if f.endswith(".rs"))
    # files that are not modules of `tables` themselves belong to whichever module declares them
    extra = {}
    for fn in allfiles:
        if fn[:-3] in declared:
            continue
        for other in allfiles:
            if other[:-3] in declared and re.search(r"^\s*(pub )?mod %s;" % fn[:-3], rd(os.path.join(tdir, other)), re.M):
                extra.setdefault(other[:-3], []).append(os.path.join(tdir, fn))
    for fn in allfiles:
        if not fn.endswith(".rs") or fn[:-3] not in declared:
            continue
        name = fn[:-3]
        files = [os.path.join(tdir, fn)] + extra.get(name, [])
        src = rd(files[0])
        for m in re.finditer(r'include!\("([^"]+)"\)', src):
            files.append(os.path.normpath(os.path.join(tdir, m.group(1))))
        sub = os.path.join(tdir, name)
        pubsubs = set(re.findall(r"^pub mod (\w+);", src, re.M))
        if os.path.isdir(sub):
            for sf in sorted(os.listdir(sub)):
                if not sf.endswith(".rs") or sf in SKIP_MODULE_FILES:
                    continue
                if sf[:-3] in pubsubs:
                    mods.append(("tables::%s::%s" % (name, sf[:-3]), [os.path.join(sub, sf)]))
                else:
                    files.append(os.path.join(sub, sf))
        mods.append(("tables::" + name, files))
    return mods


def strip_tests(src):
    # drop `#[cfg(test)] mod tests { ... }` (rustfmt: closing brace at column 0)
    out = []
    lines = src.split("\n")
    i = 0
    while i < len(lines):
        if re.match(r"#\[cfg\(test\)\]", lines[i]) and i + 1 < len(lines) and re.match(r"mod \w+ \{", lines[i + 1]):
            i += 2
            while i < len(lines) and lines[i] != "}":
                i += 1
            i += 1
            continue
        out.append(lines[i])
        i += 1
    return "\n".join(out)


IMPL_RE = re.compile(r"^impl(?:<([^>]*)>)?\s+([A-Za-z_]\w*)(?:<([^>{]*)>)?\s*(?:where[^{]*)?\{\s*$")
IMPL_FOR_RE = re.compile(r"^impl(?:<([^>]*)>)?\s+([\w:]+)(?:<([^>]*)>)?\s+for\s+([A-Za-z_]\w*)(?:<([^>{]*)>)?\s*(?:where[^{]*)?\{?\s*$")
FN_RE = re.compile(r"pub fn (\w+)\s*(<[^>(]*>)?\(\s*&self\s*(?:,\s*([^)]*?))?\s*,?\s*\)\s*(?:->\s*([^{;]+?))?\s*(?:where[^{]*)?\{", re.S)
ENUM_RE = re.compile(r"^pub enum (\w+)(?:<([^>]*)>)?\s*\{\s*$")


def blocks(src):
    """yield (header line, body text) for top-level items that end with a column-0 `}`"""
    lines = src.split("\n")
    i = 0
    while i < len(lines):
        line = lines[i]
        if (line.startswith("impl") or line.startswith("pub enum")) and not line.startswith("impl_"):
            # header may span several lines until one ends with '{'
            j = i
            header = line
            while not header.rstrip().endswith("{") and j + 1 < len(lines) and j - i < 8:
                j += 1
                header += " " + lines[j].strip()
            if header.rstrip().endswith("{"):
                k = j + 1
                while k < len(lines) and lines[k] != "}":
                    k += 1
                yield re.sub(r"\s+", " ", header).strip(), "\n".join(lines[j + 1:k])
                i = k + 1
                continue
        i += 1


class TypeInfo:
    def __init__(self, name):
        self.name = name
        self.lifetime = False     # declared with <'a>
        self.generic = False      # has type parameters -> skipped
        self.methods = []         # (name, args list of (name, type), ret)
        self.skipped = []         # (name, why)
        self.variants = None      # enum: list of variant names with one payload
        self.read = None          # None | "FontRead" | ("FontReadWithArgs", args type)
        self.args_type = None
        self.is_table = False


def parse_module(files):
    types = {}

    def get(name):
        if name not in types:
            types[name] = TypeInfo(name)
        return types[name]

    for f in files:
        src = strip_tests(rd(f))
        is_gen = os.sep + "generated" + os.sep in f
        # type aliases: pub type Avar<'a> = TableRef<'a, AvarMarker>;
        for m in re.finditer(r"^pub type (\w+)(<'a>)?\s*=\s*TableRef<'a,\s*(\w+)>;", src, re.M):
            t = get(m.group(1))
            t.is_table = True
            t.lifetime = True
            t.marker = m.group(3)
        for m in re.finditer(r"^impl ReadArgs for (\w+)(?:<[^>]*>)? \{\s*\n\s*type Args = ([^;]+);", src, re.M):
            get(m.group(1)).args_type = m.group(2).strip()
        for header, body in blocks(src):
            em = ENUM_RE.match(header)
            if em:
                t = get(em.group(1))
                gen = em.group(2) or ""
                t.lifetime = "'a" in gen
                if re.search(r"\b[A-Z]\w*\b", gen.replace("'a", "")):
                    t.generic = True
                vs = []
                ok = True
                for vl in body.split("\n"):
                    vl = vl.strip()
                    if not vl or vl.startswith("//") or vl.startswith("#["):
                        continue
                    vm = re.match(r"(\w+)\(([^)]*)\),?$", vl)
                    if vm:
                        vs.append((vm.group(1), True))
                    elif re.match(r"(\w+)(\s*=\s*[^,]+)?,?$", vl):
                        vs.append((re.match(r"(\w+)", vl).group(1), False))
                    else:
                        ok = False
                if ok and vs:
                    t.variants = vs
                continue
            fm = IMPL_FOR_RE.match(header)
            if fm:
                trait, target = fm.group(2), fm.group(4)
                tgen = fm.group(5) or ""
                igen = fm.group(1) or ""
                if trait in ("FontRead", "FontReadWithArgs"):
                    t = get(target)
                    if re.search(r"\b[A-Z]\w*\b", re.sub(r"'\w+", "", igen)):
                        t.generic = True
                    t.read = trait
                    t.lifetime = t.lifetime or "'a" in tgen
                continue
            im = IMPL_RE.match(header)
            if not im:
                continue
            igen, name, tgen = im.group(1) or "", im.group(2), im.group(3) or ""
            t = get(name)
            if re.search(r"\b[A-Z]\w*\b", re.sub(r"'\w+", "", igen)):
                t.generic = True
                continue
            t.lifetime = t.lifetime or "'" in tgen
            for mm in FN_RE.finditer(body):
                mname, gen, args, ret = mm.group(1), mm.group(2), mm.group(3), mm.group(4)
                ret = re.sub(r"\s+", " ", ret or "()").strip()
                if gen and re.search(r"\b[A-Z]\w*\b", re.sub(r"'\w+", "", gen)):
                    t.skipped.append((mname, "generic method " + gen))
                    continue
                arglist = []
                bad = None
                if args and args.strip():
                    depth = 0
                    cur = ""
                    parts = []
                    for ch in args:
                        if ch in "<([":
                            depth += 1
                        if ch in ">)]":
                            depth -= 1
                        if ch == "," and depth == 0:
                            parts.append(cur)
                            cur = ""
                        else:
                            cur += ch
                    if cur.strip():
                        parts.append(cur)
                    for p in parts:
                        if ":" not in p:
                            bad = "unparsed arg " + p
                            break
                        an, at = p.split(":", 1)
                        at = re.sub(r"\s+", " ", at).strip()
                        an = an.replace("mut ", "").strip()
                        if at not in ARG_EXPR:
                            bad = "argument type %s" % at
                            break
                        arglist.append((an, at))
                if bad:
                    t.skipped.append((mname, bad))
                    continue
                if mname in [x[0] for x in t.methods]:
                    continue
                t.methods.append((mname, arglist, ret, is_gen))
    return types


def tyname(t):
    return t.name + ("<'a>" if t.lifetime else "")


def args_exprs(args_type):
    """ReadArgs::Args type -> expression producing a symbolic value, or None"""
    a = args_type.strip()
    if a == "()":
        return "()"
    if a.startswith("(") and a.endswith(")"):
        parts = [p.strip() for p in a[1:-1].split(",") if p.strip()]
        es = [ARG_EXPR.get(p) for p in parts]
        if any(e is None for e in es):
            return None
        return "(" + ", ".join(es) + ("," if len(es) == 1 else "") + ")"
    return ARG_EXPR.get(a)


def load_json(name):
    p = os.path.join(VERIF, "gen", name)
    try:
        return json.load(open(p))
    except Exception:
        return {}


def emit(mods, dropped, n_bytes, hw_bytes):
    sizes = load_json("read_walk_sizes.json")
    budget = load_json("read_walk_budget.json")
    default_n, default_hw = n_bytes, hw_bytes

    def budget_lines(hname):
        """tier/timeout annotations from the last calibration run (harnesses unknown to it run in the quick tier)"""
        b = budget.get(hname)
        out = []
        if b and (b["status"] == "timeout" or b["secs"] > 90):
            out.append("    // @tier thorough")
            out.append("    // @timeout 1500")
        return out
    """-> (source text, index of line -> item) ; dropped: set of keys to omit"""
    out = []
    index = {}

    def add(line, key=None):
        out.append(line)
        if key:
            index[len(out)] = key

    add("// GENERATED by gen/gen_read_walk.py from /repo/read-fonts — do not edit.")
    add("#![allow(unused, non_snake_case, clippy::all)]")
    harnesses = []
    stats = {"types": 0, "methods_called": 0, "methods_skipped": [], "roots": 0, "pruned": sorted(dropped)}
    for modpath, types in mods:
        mid = modpath.replace("::", "_")
        if "module::" + modpath in dropped:
            continue
        add("pub mod w_%s {" % mid)
        add("    use super::super::walk::*;")
        add("    use font_types::*;")
        add("    use read_fonts::*;")
        add("    #[cfg(not(kani))] use crate::kani;")
        add("    use read_fonts::%s::*;" % modpath, "module::" + modpath)
        for tname in sorted(types):
            t = types[tname]
            tkey = "%s::%s" % (modpath, tname)
            if t.generic or tkey in dropped:
                continue
            if not (t.methods or t.variants or t.is_table):
                continue
            if tname.endswith("Marker"):
                # walked through the owning table's shape()
                pass
            stats["types"] += 1
            add("    impl<'a> Walk<'a> for %s {" % tyname(t), tkey)
            add("        fn walk(&self, cx: Cx<'a>) {")
            if t.is_table:
                add("            if cx.depth == 0 { return; }")
                add("            let cx = Cx { data: self.offset_data(), depth: cx.depth - 1 };")
                add("            let _ = self.min_byte_range();")
                add("            let _ = self.min_table_bytes();")
                mk = types.get(getattr(t, "marker", ""))
                if mk and not mk.generic:
                    for (mname, arglist, ret, _g) in mk.methods:
                        if arglist:
                            continue
                        key = "%s::%s::%s" % (modpath, mk.name, mname)
                        if key in dropped:
                            continue
                        add("            let _ = self.shape().%s(); // %s" % (mname, key), key)
                        stats["methods_called"] += 1
            for (mname, arglist, ret, is_gen) in t.methods:
                key = "%s::%s::%s" % (modpath, tname, mname)
                if key in dropped or not is_gen:
                    continue
                call = "self.%s(%s)" % (mname, ", ".join(ARG_EXPR[at] for (_, at) in arglist))
                add("            walk_any!(%s, cx); // %s" % (call, key), key)
                stats["methods_called"] += 1
            for (mname, why) in t.skipped:
                stats["methods_skipped"].append("%s::%s::%s (%s)" % (modpath, tname, mname, why))
            if t.variants:
                add("            match self {")
                for (v, payload) in t.variants:
                    key = "%s::%s::variant::%s" % (modpath, tname, v)
                    if payload and key not in dropped:
                        add("                Self::%s(v) => { walk_any!(v, cx); } // %s" % (v, key), key)
                add("                _ => {}")
                add("            }")
            add("        }")
            add("    }")
        # root harnesses
        for tname in sorted(types):
            t = types[tname]
            tkey = "%s::%s" % (modpath, tname)
            if t.generic or tkey in dropped or not t.read:
                continue
            hname = "c01_read_%s__%s" % (mid.replace("tables_", ""), tname)
            hkey = tkey + "::<harness>"
            if hkey in dropped:
                continue
            if t.read == "FontRead":
                rexpr = "<%s as FontRead>::read(data)" % tname
                argdecl = ""
            else:
                ae = args_exprs(t.args_type or "")
                if ae is None:
                    stats["methods_skipped"].append("%s (read args %s not synthesisable)" % (tkey, t.args_type))
                    continue
                argdecl = "        let args: <%s as ReadArgs>::Args = %s;\n" % (tname, ae)
                rexpr = "<%s as FontReadWithArgs>::read_with_args(data, &args)" % tname
            stats["roots"] += 1
            n_bytes = max(default_n, int(sizes.get(tname, 0)))
            for bl in budget_lines(hname):
                add(bl)
            add("    // @vacuity-ok")
            add("    // @c20 thorough")
            add("    // @bound N=%d symbolic bytes with symbolic length <= N; walk depth D=crate::DEPTH; generated accessors only; unwind N+3" % n_bytes)
            add("    #[cfg_attr(kani, kani::proof)]")
            add("    #[cfg_attr(kani, kani::unwind(%d))]" % (min(n_bytes, default_n) + 3))
            add("    pub fn %s() { // %s" % (hname, hkey), hkey)
            add("        let buf: [u8; %d] = kani::any();" % n_bytes)
            add("        let len: usize = kani::any();")
            add("        kani::assume(len <= %d);" % n_bytes)
            add("        let data = FontData::new(&buf[..len]);")
            if argdecl:
                out.append(argdecl.rstrip("\n"))
            add("        let r = %s;" % rexpr, hkey)
            add("        kani::cover!(r.is_ok(), \"read succeeds\");")
            add("        if let Ok(t) = r {")
            add("            walk_any!(t, Cx { data, depth: crate::DEPTH });", hkey)
            add("        }")
            add("    }")
            harnesses.append("w_%s::%s" % (mid, hname))
        # one harness per hand-written method of a readable type
        for tname in sorted(types):
            t = types[tname]
            tkey = "%s::%s" % (modpath, tname)
            if t.generic or tkey in dropped or not t.read:
                continue
            if t.read == "FontRead":
                rexpr = "<%s as FontRead>::read(data)" % tname
                argdecl = None
            else:
                ae = args_exprs(t.args_type or "")
                if ae is None:
                    continue
                argdecl = "        let args: <%s as ReadArgs>::Args = %s;" % (tname, ae)
                rexpr = "<%s as FontReadWithArgs>::read_with_args(data, &args)" % tname
            for (mname, arglist, ret, is_gen) in t.methods:
                if is_gen:
                    continue
                key = "%s::%s::%s" % (modpath, tname, mname)
                hkey = key + "::<harness>"
                if key in dropped or hkey in dropped:
                    continue
                hname = "c01_hw_%s__%s__%s" % (mid.replace("tables_", ""), tname, mname)
                stats["methods_called"] += 1
                stats["hw"] = stats.get("hw", 0) + 1
                hw_bytes = max(default_hw, int(sizes.get(tname, 0)))
                for bl in budget_lines(hname):
                    add(bl)
                add("    // @vacuity-ok")
                add("    // @c20")
                add("    // @bound hand-written accessor %s::%s on a value read from N=%d symbolic bytes (symbolic length); symbolic arguments; first 3 items of a returned iterator; result walked one level; unwind %d" % (tname, mname, hw_bytes, hw_bytes + 3))
                add("    #[cfg_attr(kani, kani::proof)]")
                add("    #[cfg_attr(kani, kani::unwind(%d))]" % (min(hw_bytes, default_hw) + 3))
                add("    pub fn %s() { // %s" % (hname, hkey), hkey)
                add("        let buf: [u8; %d] = kani::any();" % hw_bytes)
                add("        let len: usize = kani::any();")
                add("        kani::assume(len <= %d);" % hw_bytes)
                add("        let data = FontData::new(&buf[..len]);")
                if argdecl:
                    add(argdecl)
                add("        let r = %s;" % rexpr, hkey)
                add("        kani::cover!(r.is_ok(), \"read succeeds\");")
                add("        if let Ok(t) = r {")
                add("            let cx = Cx { data, depth: 1 };")
                if any(at == "&[F2Dot14]" for (_, at) in arglist):
                    add("            let __coords: ([F2Dot14; 2], usize) = ([F2Dot14::from_bits(kani::any()), F2Dot14::from_bits(kani::any())], kani::any());")
                call = "t.%s(%s)" % (mname, ", ".join(ARG_EXPR[at] for (_, at) in arglist))
                add("            walk_any!(%s, cx); // %s" % (call, key), key)
                add("        }")
                add("    }")
                harnesses.append("w_%s::%s" % (mid, hname))
        # hand-written methods of fixed-size *records* (no FontRead impl): the record is taken
        # from the front of the symbolic buffer with FontData::read_ref_at, offsets it holds are
        # resolved against the same buffer (types that are not plain-old-data are pruned by rustc)
        for tname in sorted(types):
            t = types[tname]
            tkey = "%s::%s" % (modpath, tname)
            if t.generic or tkey in dropped or t.read or t.is_table or t.lifetime or tname.endswith("Marker") or t.variants:
                continue
            for (mname, arglist, ret, is_gen) in t.methods:
                if is_gen:
                    continue
                key = "%s::%s::%s" % (modpath, tname, mname)
                hkey = key + "::<record-harness>"
                if key in dropped or hkey in dropped:
                    continue
                hname = "c01_hw_%s__%s__%s" % (mid.replace("tables_", ""), tname, mname)
                rec_bytes = max(int(sizes.get(tname, 0)), 40)
                stats["methods_called"] += 1
                stats["hw_records"] = stats.get("hw_records", 0) + 1
                for bl in budget_lines(hname):
                    add(bl)
                add("    // @vacuity-ok")
                add("    // @c20")
                add("    // @bound hand-written accessor %s::%s on a record taken from the front of N=%d symbolic bytes (symbolic length); symbolic arguments; offsets resolved against the same bytes; unwind %d" % (tname, mname, rec_bytes, default_hw + 3))
                add("    #[cfg_attr(kani, kani::proof)]")
                add("    #[cfg_attr(kani, kani::unwind(%d))]" % (default_hw + 3))
                add("    pub fn %s() { // %s" % (hname, hkey), hkey)
                add("        let buf: [u8; %d] = kani::any();" % rec_bytes)
                add("        let len: usize = kani::any();")
                add("        kani::assume(len <= %d);" % rec_bytes)
                add("        let data = FontData::new(&buf[..len]);")
                add("        let r = data.read_ref_at::<%s>(0);" % tname, hkey)
                add("        kani::cover!(r.is_ok(), \"read succeeds\");")
                add("        if let Ok(t) = r {")
                add("            let cx = Cx { data, depth: 1 };")
                if any(at == "&[F2Dot14]" for (_, at) in arglist):
                    add("            let __coords: ([F2Dot14; 2], usize) = ([F2Dot14::from_bits(kani::any()), F2Dot14::from_bits(kani::any())], kani::any());")
                call = "t.%s(%s)" % (mname, ", ".join(ARG_EXPR[at] for (_, at) in arglist))
                add("            walk_any!(%s, cx); // %s" % (call, key), key)
                add("        }")
                add("    }")
                harnesses.append("w_%s::%s" % (mid, hname))
        add("}")
    return "\n".join(out) + "\n", index, harnesses, stats


def cargo_check(crate_dir):
    env = dict(os.environ)
    env["CARGO_NET_OFFLINE"] = "true"
    p = subprocess.run(["cargo", "check", "--offline", "--lib", "--message-format=json",
                        "--target-dir", os.path.join(VERIF, ".build", "check_k_read")],
                       cwd=crate_dir, env=env, stdout=subprocess.PIPE, stderr=subprocess.PIPE, text=True)
    errs = []
    for line in p.stdout.split("\n"):
        if not line.startswith("{"):
            continue
        try:
            m = json.loads(line)
        except Exception:
            continue
        if m.get("reason") != "compiler-message":
            continue
        msg = m["message"]
        if msg.get("level") != "error":
            continue
        for sp in msg.get("spans", []):
            # follow macro expansions back to the generated file
            s = sp
            while s:
                if s["file_name"].endswith("generated_walk.rs"):
                    errs.append((s["line_start"], msg["message"]))
                    break
                s = (s.get("expansion") or {}).get("span")
    return p.returncode, errs, p.stderr[-3000:]


def generate(log=print, n_bytes=None):
    n_bytes = n_bytes or int(os.environ.get("VERIF_READ_N", DEFAULT_N))
    hw_bytes = int(os.environ.get("VERIF_HW_N", DEFAULT_HW_N))
    crate_dir = os.path.dirname(OUT)
    lock_src = os.path.join(REPO, "Cargo.lock")
    import shutil
    shutil.copyfile(lock_src, os.path.join(crate_dir, "Cargo.lock"))
    tin = os.path.join(crate_dir, "Cargo.toml.in")
    if os.path.exists(tin):
        text = open(tin).read().replace("@REPO@", REPO)
        if open(os.path.join(crate_dir, "Cargo.toml")).read() != text:
            open(os.path.join(crate_dir, "Cargo.toml"), "w").write(text)
    mods = [(mp, parse_module(files)) for mp, files in discover_modules()]
    dropped = set()
    target = os.path.join(OUT, "generated_walk.rs")
    for it in range(12):
        text, index, harnesses, stats = emit(mods, dropped, n_bytes, hw_bytes)
        old = rd(target) if os.path.exists(target) else None
        if old != text:
            with open(target, "w") as f:
                f.write(text)
        rc, errs, stderr = cargo_check(crate_dir)
        if rc == 0:
            break
        new = set()
        for (line, msg) in errs:
            # nearest indexed line at or above the error line
            l = line
            while l > 0 and l not in index:
                l -= 1
            if l in index:
                new.add(index[l])
        new -= dropped
        if not new:
            log("gen_read_walk: cargo check fails with errors outside generated lines:\n" + stderr)
            raise SystemExit(2)
        log("gen_read_walk: pass %d pruned %d items" % (it, len(new)))
        dropped |= new
    else:
        raise SystemExit("gen_read_walk: did not converge")
    stats["harnesses"] = harnesses
    os.makedirs(os.path.dirname(REPORT), exist_ok=True)
    json.dump(stats, open(REPORT, "w"), indent=1)
    log("gen_read_walk: %d types, %d accessor calls, %d root harnesses, %d pruned, %d skipped" % (
        stats["types"], stats["methods_called"], stats["roots"], len(dropped), len(stats["methods_skipped"])))
    return stats


if __name__ == "__main__":
    generate()
