//! C06 (kernels): checksum arithmetic and directory lookup of the sfnt container, reader side.
//! @assume FontBuilder::build itself (BTreeMap/Vec assembly) is not encoded; these are the kernels it and its readers rest on
use font_types::*;
use read_fonts::tables::compute_checksum;
use read_fonts::*;
#[cfg(not(kani))]
use crate::kani;

/// spec: sum of big-endian u32 words of the data zero-padded to a multiple of 4, mod 2^32
fn spec_checksum(b: &[u8]) -> u32 {
    let mut sum = 0u32;
    let mut i = 0;
    while i < b.len() {
        let mut w = 0u32;
        let mut k = 0;
        while k < 4 {
            let byte = if i + k < b.len() { b[i + k] } else { 0 };
            w = (w << 8) | byte as u32;
            k += 1;
        }
        sum = sum.wrapping_add(w);
        i += 4;
    }
    sum
}

// @bound every byte string of length <= 12; unwind 14
#[cfg_attr(kani, kani::proof)]
#[cfg_attr(kani, kani::unwind(14))]
pub fn c06_checksum_matches_spec() {
    let buf: [u8; 12] = kani::any();
    let len: usize = kani::any();
    kani::assume(len <= 12);
    assert!(compute_checksum(&buf[..len]) == spec_checksum(&buf[..len]));
    kani::cover!(len % 4 == 3, "three trailing bytes");
}

// @bound two zero-padded 4-byte-aligned pieces of <= 8 bytes each: checksum(a ++ pad ++ b) = checksum(a) + checksum(b); unwind 20
#[cfg_attr(kani, kani::proof)]
#[cfg_attr(kani, kani::unwind(20))]
pub fn c06_checksum_additive_over_padded_concat() {
    let a: [u8; 8] = kani::any();
    let b: [u8; 8] = kani::any();
    let la: usize = kani::any();
    let lb: usize = kani::any();
    kani::assume(la <= 8 && lb <= 8);
    let pa = (la + 3) / 4 * 4;
    let mut cat = [0u8; 16];
    let mut i = 0;
    while i < 8 {
        if i < la {
            cat[i] = a[i];
        }
        if i < lb {
            cat[pa + i] = b[i];
        }
        i += 1;
    }
    let total = compute_checksum(&cat[..pa + lb]);
    assert!(total == compute_checksum(&a[..la]).wrapping_add(compute_checksum(&b[..lb])));
    kani::cover!(la == 5 && lb == 3, "odd lengths");
}

// @bound head-like table of 16 symbolic bytes: the file-checksum identity sum + (0xB1B0AFBA - sum) == 0xB1B0AFBA with the adjustment field zeroed, for every content
#[cfg_attr(kani, kani::proof)]
#[cfg_attr(kani, kani::unwind(8))]
pub fn c06_head_adjustment_identity() {
    let mut head: [u8; 16] = kani::any();
    head[8] = 0;
    head[9] = 0;
    head[10] = 0;
    head[11] = 0;
    let rest: u32 = kani::any(); // checksum of everything else in the file
    let sum = rest.wrapping_add(compute_checksum(&head));
    let adj = 0xB1B0AFBAu32.wrapping_sub(sum);
    head[8..12].copy_from_slice(&adj.to_be_bytes());
    assert!(rest.wrapping_add(compute_checksum(&head)) == 0xB1B0AFBA);
    kani::cover!(true, "reached");
}

fn put32(b: &mut [u8], at: usize, v: u32) {
    b[at..at + 4].copy_from_slice(&v.to_be_bytes());
}

// @bound sfnt with a concrete-shape directory of 3 records (symbolic strictly ascending tags, symbolic offsets/lengths) in a 76-byte file; every tag; unwind 6
// @timeout 900
#[cfg_attr(kani, kani::proof)]
#[cfg_attr(kani, kani::unwind(6))]
pub fn c06_table_data_returns_the_record() {
    let mut file: [u8; 76] = kani::any();
    put32(&mut file, 0, 0x00010000);
    file[4] = 0;
    file[5] = 3;
    let tags: [u32; 3] = kani::any();
    kani::assume(tags[0] < tags[1] && tags[1] < tags[2]);
    let offs: [u32; 3] = kani::any();
    let lens: [u32; 3] = kani::any();
    let mut i = 0;
    while i < 3 {
        put32(&mut file, 12 + 16 * i, tags[i]);
        put32(&mut file, 12 + 16 * i + 8, offs[i]);
        put32(&mut file, 12 + 16 * i + 12, lens[i]);
        i += 1;
    }
    let Ok(font) = FontRef::new(&file) else {
        assert!(false);
        return;
    };
    let q: u32 = kani::any();
    let got = font.table_data(Tag::from_u32(q));
    let mut hit = None;
    let mut i = 0;
    while i < 3 {
        if tags[i] == q {
            hit = Some(i);
        }
        i += 1;
    }
    match hit {
        None => assert!(got.is_none()),
        Some(i) => {
            let (o, l) = (offs[i] as u64, lens[i] as u64);
            if o != 0 && o + l <= 76 {
                let d = got.expect("present table");
                assert!(d.len() as u64 == l);
                if l > 0 {
                    let k: usize = kani::any();
                    kani::assume((k as u64) < l);
                    assert!(d.as_bytes()[k] == file[o as usize + k]);
                }
            } else {
                assert!(got.is_none());
            }
        }
    }
    kani::cover!(hit == Some(1) && got.is_some(), "middle record found");
}
