//! C01 core: file-level entry points and FontData primitives on arbitrary bytes.
use font_types::*;
use read_fonts::*;
use crate::walk::*;
#[cfg(not(kani))]
use crate::kani;

// @bound FontData primitives on <= 12 symbolic bytes with symbolic offsets/ranges
// @c20
#[cfg_attr(kani, kani::proof)]
#[cfg_attr(kani, kani::unwind(14))]
pub fn c01_core_fontdata_primitives() {
    let buf: [u8; 12] = kani::any();
    let len: usize = kani::any();
    kani::assume(len <= 12);
    let d = FontData::new(&buf[..len]);
    let a: usize = kani::any();
    let b: usize = kani::any();
    let r16 = d.read_at::<u16>(a);
    assert!(r16.is_ok() == (a <= len && len - a >= 2));
    if let Ok(v) = r16 {
        assert!(v == ((buf[a] as u16) << 8 | buf[a + 1] as u16));
    }
    let r32 = d.read_at::<u32>(a);
    assert!(r32.is_ok() == (a <= len && len - a >= 4));
    let r24 = d.read_at::<Uint24>(a);
    assert!(r24.is_ok() == (a <= len && len - a >= 3));
    let rbe = d.read_be_at::<i16>(a);
    assert!(rbe.is_ok() == r16.is_ok());
    let s = d.split_off(a);
    assert!(s.is_some() == (a <= len));
    if let Some(s) = s {
        assert!(s.len() == len - a);
    }
    let sl = d.slice(a..b);
    assert!(sl.is_some() == (a <= b && b <= len));
    let arr = d.read_array::<BigEndian<u16>>(a..b);
    assert!(arr.is_ok() == (a <= b && b <= len && (b - a) % 2 == 0));
    if let Ok(arr) = arr {
        assert!(arr.len() == (b - a) / 2);
    }
    let mut m = d;
    let t = m.take_up_to(a);
    assert!(t.is_some() == (a <= len));
    if let Some(t) = t {
        assert!(t.len() == a && m.len() == len - a);
    }
    let rr = d.read_ref_at::<BigEndian<u32>>(a);
    assert!(rr.is_ok() == r32.is_ok());
    kani::cover!(r32.is_ok() && a > 0, "interior read");
}

// @bound FontRef::new / table_data(any tag) / table directory accessors on <= 48 symbolic bytes; unwind 8
// @c20
#[cfg_attr(kani, kani::proof)]
#[cfg_attr(kani, kani::unwind(8))]
pub fn c01_core_fontref_any_bytes() {
    let buf: [u8; 48] = kani::any();
    let len: usize = kani::any();
    kani::assume(len <= 48);
    let r = FontRef::new(&buf[..len]);
    kani::cover!(r.is_ok(), "font opens");
    if let Ok(f) = r {
        let tag = Tag::from_u32(kani::any());
        let d = f.table_data(tag);
        kani::cover!(d.is_some(), "a table is found");
        if let Some(d) = d {
            assert!(d.len() <= len);
        }
        let _ = f.data_for_tag(tag).map(|d| d.len());
        let td = &f.table_directory;
        let _ = (td.sfnt_version(), td.num_tables(), td.search_range(), td.entry_selector(), td.range_shift());
        let recs = td.table_records();
        if let Some(r) = recs.first() {
            let _ = (r.tag(), r.checksum(), r.offset(), r.length());
        }
        // a few typed accessors through TableProvider (each parses the table it finds)
        let _ = f.head().map(|t| t.units_per_em());
        let _ = f.maxp().map(|t| t.num_glyphs());
        let _ = f.hhea().map(|t| t.number_of_h_metrics());
    }
}

// @bound FileRef::new / CollectionRef::get(any index) / fonts() first 2 on <= 48 symbolic bytes; unwind 8
// @c20
// @timeout 900
#[cfg_attr(kani, kani::proof)]
#[cfg_attr(kani, kani::unwind(8))]
pub fn c01_core_fileref_any_bytes() {
    let buf: [u8; 48] = kani::any();
    let len: usize = kani::any();
    kani::assume(len <= 48);
    let r = FileRef::new(&buf[..len]);
    if let Ok(file) = r {
        let mut it = file.fonts();
        let a = it.next();
        let b = it.next();
        kani::cover!(matches!(a, Some(Ok(_))), "first font ok");
        if let FileRef::Collection(c) = &file {
            kani::cover!(true, "collection");
            let _ = c.len();
            let _ = c.is_empty();
            let i: u32 = kani::any();
            let g = c.get(i);
            kani::cover!(g.is_ok(), "collection member opens");
        }
    }
    let i: u32 = kani::any();
    let _ = FontRef::from_index(&buf[..len], i).is_ok();
}

// @bound relocation: the same 28 symbolic bytes at offset 0 and at offset 1 of a larger array give equal FontRef/table_data observations; unwind 6
#[cfg_attr(kani, kani::proof)]
#[cfg_attr(kani, kani::unwind(30))]
pub fn c01_reloc_fontref() {
    let a: [u8; 28] = kani::any();
    let mut b = [0u8; 30];
    let pad: u8 = kani::any();
    b[0] = pad;
    b[29] = pad;
    let mut i = 0;
    while i < 28 {
        b[i + 1] = a[i];
        i += 1;
    }
    let fa = FontRef::new(&a);
    let fb = FontRef::new(&b[1..29]);
    assert!(fa.is_ok() == fb.is_ok());
    if let (Ok(fa), Ok(fb)) = (fa, fb) {
        let tag = Tag::from_u32(kani::any());
        let da = fa.table_data(tag);
        let db = fb.table_data(tag);
        assert!(da.is_some() == db.is_some());
        if let (Some(da), Some(db)) = (da, db) {
            assert!(da.len() == db.len());
            if da.len() > 0 {
                let k: usize = kani::any();
                kani::assume(k < da.len());
                assert!(da.as_bytes()[k] == db.as_bytes()[k]);
            }
        }
        // same call twice gives the same answer (purity)
        let da2 = fa.table_data(tag);
        assert!(da.map(|d| d.len()) == da2.map(|d| d.len()));
        kani::cover!(da.is_some(), "table found");
    }
}

// @bound BitmapSize::location on a concrete frame (one BitmapSize record in its own 48 bytes; offset data = index subtable list of 1 record + one index subtable of 28 bytes) with symbolic contents: glyph ranges, index format (1..=5 and invalid), image format / data offset, 20 bytes of subtable body, symbolic glyph id; unwind 7
// @c20
// @timeout 600
#[cfg_attr(kani, kani::proof)]
#[cfg_attr(kani, kani::unwind(7))]
pub fn c01_frame_bitmap_location() {
    use read_fonts::tables::bitmap::BitmapSize;
    let mut s: [u8; 48] = kani::any();
    // indexSubtableListOffset = 0, indexSubtableListSize = 36, numberOfIndexSubtables = 1
    s[0] = 0; s[1] = 0; s[2] = 0; s[3] = 0;
    s[4] = 0; s[5] = 0; s[6] = 0; s[7] = 36;
    s[8] = 0; s[9] = 0; s[10] = 0; s[11] = 1;
    let mut b: [u8; 36] = kani::any();
    // record: first / last glyph symbolic, additionalOffsetToIndexSubtable = 8
    b[4] = 0; b[5] = 0; b[6] = 0; b[7] = 8;
    // index format: high byte 0
    b[8] = 0;
    let Ok(size) = FontData::new(&s).read_ref_at::<BitmapSize>(0) else { return };
    let gid: u32 = kani::any();
    let r = size.location(FontData::new(&b), GlyphId::new(gid));
    if let Ok(loc) = &r {
        kani::cover!(b[9] == 4, "format 4 location found");
        kani::cover!(b[9] == 1, "format 1 location found");
        kani::cover!(b[9] == 5, "format 5 location found");
    }
    kani::cover!(r.is_err(), "location rejected");
}
