//! C01 (and the read-fonts part of C20, C06, C08–C11, C16): Kani harnesses over read-fonts.
#![allow(unused, clippy::all)]
#[cfg(not(kani))]
#[path = "../../shim/shim.rs"]
pub mod kani;

/// table levels walked below the root (offsets are resolved one level further)
pub const DEPTH: u32 = match option_env!("VERIF_READ_DEPTH") {
    Some(s) => (s.as_bytes()[0] - b'0') as u32,
    None => 1,
};

#[macro_use]
pub mod walk;
pub mod generated_walk;
pub mod c01_core;
pub mod c06_sfnt;
pub mod c08_cmap;
pub mod c09_glyf;
pub mod c10_packed;
pub mod c11_var;
pub mod c16_layout;

#[cfg(not(kani))]
include!("dispatch.rs");
