//! C16 (reader half): coverage / class-definition lookups vs the OpenType spec, for every glyph id.
//! @assume the layout *builders* and overflow splitting (write-fonts) are outside this check; it decides that the reader used as their oracle is itself right
use font_types::*;
use read_fonts::tables::layout::*;
use read_fonts::*;
#[cfg(not(kani))]
use crate::kani;

// @bound CoverageFormat1 on 16 symbolic bytes (<= 6 glyphs), sorted glyph array (spec precondition), every glyph id; unwind 8
// @c20
// @c01
#[cfg_attr(kani, kani::proof)]
#[cfg_attr(kani, kani::unwind(8))]
pub fn c16_coverage1_get_matches_spec() {
    let buf: [u8; 16] = kani::any();
    let len: usize = kani::any();
    kani::assume(len <= 16);
    let Ok(t) = CoverageFormat1::read(FontData::new(&buf[..len])) else { return };
    let arr = t.glyph_array();
    let mut i = 1;
    while i < arr.len() {
        kani::assume(arr[i - 1].get() < arr[i].get());
        i += 1;
    }
    let g: u32 = kani::any();
    let got = t.get(GlyphId::new(g));
    let mut exp = None;
    let mut i = 0;
    while i < arr.len() {
        if arr[i].get().to_u32() == g {
            exp = Some(i as u16);
        }
        i += 1;
    }
    assert!(got == exp);
    assert!(CoverageTable::Format1(t.clone()).get(GlyphId::new(g)) == exp);
    assert!(t.population() == arr.len());
    kani::cover!(exp == Some(2), "third glyph found");
}

// @bound CoverageFormat2 on 22 symbolic bytes (<= 3 ranges), spec-conformant ranges (sorted, disjoint, start<=end, startCoverageIndex = running count), every glyph id; unwind 6
// @c20
// @c01
#[cfg_attr(kani, kani::proof)]
#[cfg_attr(kani, kani::unwind(6))]
pub fn c16_coverage2_get_matches_spec() {
    let buf: [u8; 22] = kani::any();
    let len: usize = kani::any();
    kani::assume(len <= 22);
    let Ok(t) = CoverageFormat2::read(FontData::new(&buf[..len])) else { return };
    let recs = t.range_records();
    let mut running: u32 = 0;
    let mut i = 0;
    while i < recs.len() {
        let (s, e) = (recs[i].start_glyph_id().to_u32(), recs[i].end_glyph_id().to_u32());
        kani::assume(s <= e);
        if i > 0 {
            kani::assume(recs[i - 1].end_glyph_id().to_u32() < s);
        }
        kani::assume(recs[i].start_coverage_index() as u32 == running);
        running += e - s + 1;
        i += 1;
    }
    kani::assume(running <= 0x10000);
    let g: u32 = kani::any();
    let got = t.get(GlyphId::new(g));
    let mut exp = None;
    let mut i = 0;
    while i < recs.len() {
        let (s, e) = (recs[i].start_glyph_id().to_u32(), recs[i].end_glyph_id().to_u32());
        if s <= g && g <= e {
            exp = Some((recs[i].start_coverage_index() as u32 + g - s) as u16);
        }
        i += 1;
    }
    assert!(got == exp);
    assert!(t.population() as u32 == running);
    kani::cover!(exp.is_some() && recs.len() == 3, "hit with three ranges");
}

// @bound CoverageFormat2 on 22 ARBITRARY symbolic bytes, every glyph id: no overflow, no panic (font data need not be spec-conformant); unwind 6
// @c20
// @c01
#[cfg_attr(kani, kani::proof)]
#[cfg_attr(kani, kani::unwind(6))]
pub fn c16_coverage2_get_total() {
    let buf: [u8; 22] = kani::any();
    let len: usize = kani::any();
    kani::assume(len <= 22);
    let Ok(t) = CoverageFormat2::read(FontData::new(&buf[..len])) else { return };
    let g: u32 = kani::any();
    let got = t.get(GlyphId::new(g));
    let _ = t.population();
    kani::cover!(got.is_some(), "hit");
}

// @bound ClassDefFormat1 on 16 symbolic bytes (<= 5 classes), every 16-bit glyph id; unwind 8
// @c20
// @c01
#[cfg_attr(kani, kani::proof)]
#[cfg_attr(kani, kani::unwind(8))]
pub fn c16_classdef1_get_matches_spec() {
    let buf: [u8; 16] = kani::any();
    let len: usize = kani::any();
    kani::assume(len <= 16);
    let Ok(t) = ClassDefFormat1::read(FontData::new(&buf[..len])) else { return };
    let g: u16 = kani::any();
    let got = t.get(GlyphId16::new(g));
    let start = t.start_glyph_id().to_u16();
    let arr = t.class_value_array();
    let exp = if g >= start && ((g - start) as usize) < arr.len() { arr[(g - start) as usize].get() } else { 0 };
    assert!(got == exp);
    assert!(ClassDef::Format1(t.clone()).get(GlyphId16::new(g)) == exp);
    kani::cover!(exp != 0, "non-zero class");
}

// @bound ClassDefFormat2 on 22 symbolic bytes (<= 3 ranges), spec-conformant ranges, every 16-bit glyph id; unwind 6
// @c20
// @c01
#[cfg_attr(kani, kani::proof)]
#[cfg_attr(kani, kani::unwind(6))]
pub fn c16_classdef2_get_matches_spec() {
    let buf: [u8; 22] = kani::any();
    let len: usize = kani::any();
    kani::assume(len <= 22);
    let Ok(t) = ClassDefFormat2::read(FontData::new(&buf[..len])) else { return };
    let recs = t.class_range_records();
    let mut i = 0;
    while i < recs.len() {
        kani::assume(recs[i].start_glyph_id() <= recs[i].end_glyph_id());
        if i > 0 {
            kani::assume(recs[i - 1].end_glyph_id() < recs[i].start_glyph_id());
        }
        i += 1;
    }
    let g: u16 = kani::any();
    let got = t.get(GlyphId16::new(g));
    let mut exp = 0;
    let mut i = 0;
    while i < recs.len() {
        if recs[i].start_glyph_id().to_u16() <= g && g <= recs[i].end_glyph_id().to_u16() {
            exp = recs[i].class();
        }
        i += 1;
    }
    assert!(got == exp);
    kani::cover!(exp != 0 && recs.len() == 3, "hit with three ranges");
}

// @bound ClassDefFormat1::iter / CoverageTable::iter agree with get on the first 2 items (<= 16 symbolic bytes); unwind 8
// @c20
// @c01
#[cfg_attr(kani, kani::proof)]
#[cfg_attr(kani, kani::unwind(8))]
pub fn c16_iter_agrees_with_get() {
    let buf: [u8; 16] = kani::any();
    let Ok(t) = ClassDefFormat1::read(FontData::new(&buf)) else { return };
    kani::assume(t.start_glyph_id().to_u16() < 0xFF00);
    let mut it = t.iter();
    let mut n = 0;
    while n < 2 {
        let Some((g, c)) = it.next() else { break };
        assert!(t.get(g) == c);
        n += 1;
    }
    let Ok(cv) = CoverageFormat1::read(FontData::new(&buf)) else { return };
    let arr = cv.glyph_array();
    let mut i = 1;
    while i < arr.len() {
        kani::assume(arr[i - 1].get() < arr[i].get());
        i += 1;
    }
    let ct = CoverageTable::Format1(cv);
    let mut it = ct.iter();
    let mut k = 0u16;
    while k < 2 {
        let Some(g) = it.next() else { break };
        assert!(ct.get(g) == Some(k));
        k += 1;
    }
    kani::cover!(k == 2, "two coverage items");
}
