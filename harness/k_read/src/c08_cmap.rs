//! C08 (reader half): cmap subtable lookups vs a direct transcription of the OpenType spec.
//! @assume the spec model is evaluated on the arrays the generated getters return; arrays -> bytes is the generated reader (walked under C01)
use font_types::*;
use read_fonts::tables::cmap::*;
use read_fonts::*;
#[cfg(not(kani))]
use crate::kani;

/// Spec format-4 lookup ("search for the first endCode >= c ..."), on the raw arrays.
/// Returns 0 for "missing glyph". `None` = the table is malformed for this codepoint in a way
/// the spec leaves undefined (address outside glyphIdArray or inside the offset array).
fn spec_cmap4(t: &Cmap4, c: u16) -> Option<u16> {
    let end = t.end_code();
    let start = t.start_code();
    let delta = t.id_delta();
    let ro = t.id_range_offsets();
    let gia = t.glyph_id_array();
    let seg = end.len();
    let mut i = 0;
    while i < seg {
        if end[i].get() >= c {
            if start[i].get() > c {
                return Some(0);
            }
            let r = ro[i].get() as usize;
            if r == 0 {
                return Some((c as i32 + delta[i].get() as i32) as u16);
            }
            // &idRangeOffset[i] + idRangeOffset[i]/2 words + (c - startCode[i]) words
            let words_from_ro_i = r / 2 + (c - start[i].get()) as usize;
            let words_to_gia = seg - i;
            if words_from_ro_i < words_to_gia {
                return None;
            }
            let idx = words_from_ro_i - words_to_gia;
            if idx >= gia.len() {
                return Some(0);
            }
            let g = gia[idx].get();
            return Some(if g == 0 { 0 } else { (g as i32 + delta[i].get() as i32) as u16 });
        }
        i += 1;
    }
    Some(0)
}

/// spec well-formedness: segments sorted by endCode, start <= end, non-overlapping
fn cmap4_well_formed(t: &Cmap4) -> bool {
    let end = t.end_code();
    let start = t.start_code();
    let seg = end.len();
    if start.len() != seg || t.id_delta().len() != seg || t.id_range_offsets().len() != seg {
        return false;
    }
    let mut i = 0;
    while i < seg {
        if start[i].get() > end[i].get() {
            return false;
        }
        if i > 0 && start[i].get() <= end[i - 1].get() {
            return false;
        }
        i += 1;
    }
    true
}

// @bound Cmap4 on 40 symbolic bytes, segCount <= 3, every u32 codepoint; unwind 6
// @c20
// @c01
#[cfg_attr(kani, kani::proof)]
#[cfg_attr(kani, kani::unwind(6))]
pub fn c08_cmap4_lookup_matches_spec() {
    let buf: [u8; 40] = kani::any();
    let len: usize = kani::any();
    kani::assume(len <= 40);
    let Ok(t) = Cmap4::read(FontData::new(&buf[..len])) else { return };
    kani::assume(t.seg_count_x2() <= 6);
    let c: u32 = kani::any();
    let got = t.map_codepoint(c);
    if c > 0xFFFF {
        assert!(got.is_none());
        return;
    }
    if cmap4_well_formed(&t) {
        if let Some(exp) = spec_cmap4(&t, c as u16) {
            assert!(got.map(|g| g.to_u32()).unwrap_or(0) == exp as u32);
            kani::cover!(exp != 0 && t.end_code().len() == 2, "mapped, two segments");
            kani::cover!(exp != 0 && t.end_code().len() >= 1 && t.id_range_offsets()[0].get() != 0, "mapped through glyphIdArray");
        }
    }
    kani::cover!(got.is_some(), "some mapping");
}

// @bound Cmap4Iter on 32 symbolic bytes, segCount <= 2, first 3 items; unwind 8
// @tier thorough
// @timeout 2400
// @c20 thorough
// @c01 thorough
#[cfg_attr(kani, kani::proof)]
#[cfg_attr(kani, kani::unwind(8))]
pub fn c08_cmap4_iter_matches_lookup() {
    let buf: [u8; 32] = kani::any();
    let Ok(t) = Cmap4::read(FontData::new(&buf)) else { return };
    kani::assume(t.seg_count_x2() <= 4);
    kani::assume(cmap4_well_formed(&t));
    // keep ranges tiny so the iterator's skipping loop is bounded by the unwind
    let end = t.end_code();
    let start = t.start_code();
    let mut i = 0;
    while i < end.len() {
        kani::assume(end[i].get() - start[i].get() <= 2);
        i += 1;
    }
    let mut it = t.iter();
    let mut prev: Option<u32> = None;
    let mut n = 0;
    while n < 3 {
        let Some((c, g)) = it.next() else { break };
        // strictly ascending codepoints, and each pair is what lookup answers
        if let Some(p) = prev {
            assert!(c > p);
        }
        assert!(c <= 0xFFFF);
        assert!(t.map_codepoint(c) == Some(g));
        prev = Some(c);
        n += 1;
    }
    kani::cover!(n == 3, "three items");
}

fn spec_cmap12(t: &Cmap12, c: u32) -> u32 {
    let groups = t.groups();
    let mut i = 0;
    while i < groups.len() {
        let g = &groups[i];
        if g.start_char_code() <= c && c <= g.end_char_code() {
            return g.start_glyph_id().wrapping_add(c - g.start_char_code());
        }
        i += 1;
    }
    0
}

// @bound Cmap12 on 52 symbolic bytes (<= 3 groups), every u32 codepoint; unwind 5
// @c20
// @c01
#[cfg_attr(kani, kani::proof)]
#[cfg_attr(kani, kani::unwind(5))]
pub fn c08_cmap12_lookup_matches_spec() {
    let buf: [u8; 52] = kani::any();
    let len: usize = kani::any();
    kani::assume(len <= 52);
    let Ok(t) = Cmap12::read(FontData::new(&buf[..len])) else { return };
    let groups = t.groups();
    // spec: groups sorted by startCharCode, non-overlapping, start <= end
    let mut i = 0;
    while i < groups.len() {
        kani::assume(groups[i].start_char_code() <= groups[i].end_char_code());
        if i > 0 {
            kani::assume(groups[i].start_char_code() > groups[i - 1].end_char_code());
        }
        i += 1;
    }
    let c: u32 = kani::any();
    let got = t.map_codepoint(c);
    let exp = spec_cmap12(&t, c);
    let mut covered = false;
    let mut i = 0;
    while i < groups.len() {
        if groups[i].start_char_code() <= c && c <= groups[i].end_char_code() {
            covered = true;
        }
        i += 1;
    }
    if covered {
        assert!(got == Some(GlyphId::new(exp)));
    } else {
        assert!(got.is_none());
    }
    kani::cover!(covered && groups.len() == 3, "hit, three groups");
}

// @bound Cmap12Iter on 40 symbolic bytes (<= 2 groups) with default limits, first 3 items: codepoints strictly ascend and never exceed char::MAX; unwind 6
// @c20
// @c01
#[cfg_attr(kani, kani::proof)]
#[cfg_attr(kani, kani::unwind(6))]
pub fn c08_cmap12_iter_ascending() {
    let buf: [u8; 40] = kani::any();
    let Ok(t) = Cmap12::read(FontData::new(&buf)) else { return };
    let mut it = t.iter_with_limits(Cmap12IterLimits::default());
    let mut prev: Option<u32> = None;
    let mut n = 0;
    while n < 3 {
        let Some((c, _g)) = it.next() else { break };
        if let Some(p) = prev {
            assert!(c > p);
        }
        assert!(c <= char::MAX as u32);
        prev = Some(c);
        n += 1;
    }
    kani::cover!(n == 3, "three items");
}

// @bound Cmap with 2 encoding records on 48 symbolic bytes: map_codepoint = first subtable (format 4/12) that maps; unwind 8
// @tier thorough
// @timeout 2400
// @c20 thorough
// @c01 thorough
#[cfg_attr(kani, kani::proof)]
#[cfg_attr(kani, kani::unwind(8))]
pub fn c08_cmap_first_subtable_wins() {
    let buf: [u8; 48] = kani::any();
    let Ok(t) = Cmap::read(FontData::new(&buf)) else { return };
    kani::assume(t.num_tables() <= 2);
    let c: u32 = kani::any();
    let got = t.map_codepoint(c);
    let mut exp = None;
    let recs = t.encoding_records();
    let mut i = 0;
    while i < recs.len() {
        if exp.is_none() {
            if let Ok(st) = recs[i].subtable(t.offset_data()) {
                exp = match st {
                    CmapSubtable::Format4(f) => f.map_codepoint(c),
                    CmapSubtable::Format12(f) => f.map_codepoint(c),
                    _ => None,
                };
            }
        }
        i += 1;
    }
    assert!(got == exp);
    kani::cover!(got.is_some(), "mapped");
}
