//! C09 (reader half): simple-glyph point decoding vs the glyf spec's flag/coordinate rules.
//! @assume the write side (write-fonts SimpleGlyph / GlyfLocaBuilder) is decided separately by its kernel harnesses; composing both is an argument, not one query
use font_types::*;
use read_fonts::tables::glyf::*;
use read_fonts::*;
#[cfg(not(kani))]
use crate::kani;

/// Spec decoding of point `want` from the flags/x/y stream `d` holding `n` points.
/// Returns None when the stream is too short for all n points (the reader then yields nothing).
fn spec_point(d: &[u8], n: usize, want: usize) -> Option<(i16, i16, bool)> {
    // 1. expand flags
    let mut flags = [0u8; 4];
    let mut pos = 0usize;
    let mut i = 0usize;
    while i < n {
        if pos >= d.len() {
            return None;
        }
        let f = d[pos];
        pos += 1;
        let mut rep = 1usize;
        if f & 0x08 != 0 {
            if pos >= d.len() {
                return None;
            }
            rep = d[pos] as usize + 1;
            pos += 1;
        }
        if rep > n - i {
            return None; // malformed: repeat runs past the last point
        }
        let mut k = 0;
        while k < rep {
            flags[i] = f;
            i += 1;
            k += 1;
        }
    }
    // 2. x coordinates
    let mut xs = [0i16; 4];
    let mut x = 0i16;
    let mut i = 0;
    while i < n {
        let f = flags[i];
        if f & 0x02 != 0 {
            if pos + 1 > d.len() {
                return None;
            }
            let v = d[pos] as i16;
            pos += 1;
            x = x.wrapping_add(if f & 0x10 != 0 { v } else { -v });
        } else if f & 0x10 == 0 {
            if pos + 2 > d.len() {
                return None;
            }
            x = x.wrapping_add((((d[pos] as u16) << 8) | d[pos + 1] as u16) as i16);
            pos += 2;
        }
        xs[i] = x;
        i += 1;
    }
    let mut ys = [0i16; 4];
    let mut y = 0i16;
    let mut i = 0;
    while i < n {
        let f = flags[i];
        if f & 0x04 != 0 {
            if pos + 1 > d.len() {
                return None;
            }
            let v = d[pos] as i16;
            pos += 1;
            y = y.wrapping_add(if f & 0x20 != 0 { v } else { -v });
        } else if f & 0x20 == 0 {
            if pos + 2 > d.len() {
                return None;
            }
            y = y.wrapping_add((((d[pos] as u16) << 8) | d[pos + 1] as u16) as i16);
            pos += 2;
        }
        ys[i] = y;
        i += 1;
    }
    Some((xs[want], ys[want], flags[want] & 1 != 0))
}

// @bound SimpleGlyph on 28 symbolic bytes, 1 contour, <= 3 points, no instructions: points() equals the spec decoding of flags (incl. REPEAT), short/same/long x and y deltas with wrapping accumulation; read_points_fast agrees; unwind 8
// @c20
// @c01
// @timeout 1200
#[cfg_attr(kani, kani::proof)]
#[cfg_attr(kani, kani::unwind(8))]
pub fn c09_simple_glyph_points_match_spec() {
    let buf: [u8; 28] = kani::any();
    let len: usize = kani::any();
    kani::assume(len <= 28);
    let Ok(g) = SimpleGlyph::read(FontData::new(&buf[..len])) else { return };
    kani::assume(g.number_of_contours() == 1 && g.instruction_length() == 0);
    let n = g.num_points();
    kani::assume(n >= 1 && n <= 3);
    assert!(n == g.end_pts_of_contours()[0].get() as usize + 1);
    let d = g.glyph_data();
    let mut it = g.points();
    let mut i = 0;
    let ok = spec_point(d, n, 0).is_some();
    while i < 3 {
        if i < n {
            let got = it.next();
            match spec_point(d, n, i) {
                Some((x, y, on)) => {
                    let p = got.expect("point present");
                    assert!(p.x == x && p.y == y && p.on_curve == on);
                }
                None => assert!(got.is_none()),
            }
        }
        i += 1;
    }
    if ok {
        assert!(it.next().is_none());
        // the buffer-based reader agrees
        let mut pts = [Point::<i32>::default(); 3];
        let mut fl = [PointFlags::default(); 3];
        let r = g.read_points_fast(&mut pts[..n], &mut fl[..n]);
        assert!(r.is_ok());
        let k: usize = kani::any();
        kani::assume(k < n);
        let (x, y, on) = spec_point(d, n, k).unwrap();
        assert!(pts[k].x == x as i32 && pts[k].y == y as i32 && fl[k].is_on_curve() == on);
        kani::cover!(n == 3 && d[0] & 0x08 != 0, "repeat flag used");
        kani::cover!(n == 3 && d[0] & 0x12 == 0, "long x delta");
    }
}

// @bound SimpleGlyph on 24 ARBITRARY symbolic bytes: num_points / points() (first 3) / has_overlapping_contours / read_points_fast with matching buffers (<= 4 points) never panic; unwind 8
// @c20
// @c01
// @timeout 1200
#[cfg_attr(kani, kani::proof)]
#[cfg_attr(kani, kani::unwind(8))]
pub fn c09_simple_glyph_total() {
    let buf: [u8; 24] = kani::any();
    let len: usize = kani::any();
    kani::assume(len <= 24);
    let Ok(g) = SimpleGlyph::read(FontData::new(&buf[..len])) else { return };
    let n = g.num_points();
    let _ = g.has_overlapping_contours();
    let mut it = g.points();
    let _ = it.next();
    let _ = it.next();
    let _ = it.next();
    if n <= 4 {
        let mut pts = [Point::<i32>::default(); 4];
        let mut fl = [PointFlags::default(); 4];
        let _ = g.read_points_fast(&mut pts[..n], &mut fl[..n]);
        let m: usize = kani::any();
        kani::assume(m <= 4);
        let r = g.read_points_fast(&mut pts[..m], &mut fl[..m]);
        if m != n {
            assert!(r.is_err());
        }
    }
    kani::cover!(n == 4, "four points");
}
