//! C09 (reader half): simple-glyph point decoding vs the glyf spec's flag/coordinate rules.
//! @assume the write side (write-fonts SimpleGlyph / GlyfLocaBuilder) is decided separately by its kernel harnesses; composing both is an argument, not one query
use font_types::*;
use read_fonts::tables::glyf::*;
use read_fonts::*;
#[cfg(not(kani))]
use crate::kani;

/// Spec decoding of point `want` from the flags/x/y stream `d` holding `n` points.
/// Returns None when the stream is too short for all n points (the reader then yields nothing).
fn spec_point(d: &[u8], n: usize, want: usize) -> Option<(i16, i16, bool)> {
    // 1. expand flags
    let mut flags = [0u8; 4];
    let mut pos = 0usize;
    let mut i = 0usize;
    while i < n {
        if pos >= d.len() {
            return None;
        }
        let f = d[pos];
        pos += 1;
        let mut rep = 1usize;
        if f & 0x08 != 0 {
            if pos >= d.len() {
                return None;
            }
            rep = d[pos] as usize + 1;
            pos += 1;
        }
        if rep > n - i {
            return None; // malformed: repeat runs past the last point
        }
        let mut k = 0;
        while k < rep {
            flags[i] = f;
            i += 1;
            k += 1;
        }
    }
    // 2. x coordinates
    let mut xs = [0i16; 4];
    let mut x = 0i16;
    let mut i = 0;
    while i < n {
        let f = flags[i];
        if f & 0x02 != 0 {
            if pos + 1 > d.len() {
                return None;
            }
            let v = d[pos] as i16;
            pos += 1;
            x = x.wrapping_add(if f & 0x10 != 0 { v } else { -v });
        } else if f & 0x10 == 0 {
            if pos + 2 > d.len() {
                return None;
            }
            x = x.wrapping_add((((d[pos] as u16) << 8) | d[pos + 1] as u16) as i16);
            pos += 2;
        }
        xs[i] = x;
        i += 1;
    }
    let mut ys = [0i16; 4];
    let mut y = 0i16;
    let mut i = 0;
    while i < n {
        let f = flags[i];
        if f & 0x04 != 0 {
            if pos + 1 > d.len() {
                return None;
            }
            let v = d[pos] as i16;
            pos += 1;
            y = y.wrapping_add(if f & 0x20 != 0 { v } else { -v });
        } else if f & 0x20 == 0 {
            if pos + 2 > d.len() {
                return None;
            }
            y = y.wrapping_add((((d[pos] as u16) << 8) | d[pos + 1] as u16) as i16);
            pos += 2;
        }
        ys[i] = y;
        i += 1;
    }
    Some((xs[want], ys[want], flags[want] & 1 != 0))
}

// @bound SimpleGlyph on 22 symbolic bytes, 1 contour, <= 2 points, no instructions: point k (symbolic k) of points() equals the spec decoding of flags (incl. REPEAT), short/same/long x and y deltas with wrapping accumulation; unwind 7
// @c20
// @c01
// @timeout 1200
#[cfg_attr(kani, kani::proof)]
#[cfg_attr(kani, kani::unwind(7))]
pub fn c09_simple_glyph_points_match_spec() {
    let buf: [u8; 22] = kani::any();
    let len: usize = kani::any();
    kani::assume(len <= 22);
    let Ok(g) = SimpleGlyph::read(FontData::new(&buf[..len])) else { return };
    kani::assume(g.number_of_contours() == 1 && g.instruction_length() == 0);
    let n = g.num_points();
    kani::assume(n >= 1 && n <= 2);
    let d = g.glyph_data();
    let mut it = g.points();
    let p0 = it.next();
    let p1 = it.next();
    let k: usize = kani::any();
    kani::assume(k < n);
    let got = if k == 0 { p0 } else { p1 };
    match spec_point(d, n, k) {
        Some((x, y, on)) => {
            let p = got.expect("point present");
            assert!(p.x == x && p.y == y && p.on_curve == on);
            if n == 1 {
                assert!(p1.is_none());
            }
            kani::cover!(n == 2 && k == 1 && d[0] & 0x08 != 0, "second point through a repeat flag");
            kani::cover!(n == 2 && k == 1 && d[0] & 0x12 == 0, "long x delta");
        }
        None => assert!(p0.is_none()),
    }
}

// @bound SimpleGlyph on 24 symbolic bytes, 1 contour, <= 3 points: read_points_fast and points() agree point by point (symbolic index)
// @c20 thorough
// @c01 thorough
// @tier thorough
// @timeout 3000
// @mem 30
#[cfg_attr(kani, kani::proof)]
#[cfg_attr(kani, kani::unwind(8))]
pub fn c09_simple_glyph_fast_agrees_with_iter() {
    let buf: [u8; 24] = kani::any();
    let Ok(g) = SimpleGlyph::read(FontData::new(&buf)) else { return };
    kani::assume(g.number_of_contours() == 1 && g.instruction_length() == 0);
    let n = g.num_points();
    kani::assume(n >= 1 && n <= 3);
    let mut pts = [Point::<i32>::default(); 3];
    let mut fl = [PointFlags::default(); 3];
    let r = g.read_points_fast(&mut pts[..n], &mut fl[..n]);
    let mut it = g.points();
    let a = [it.next(), it.next(), it.next()];
    if a[0].is_some() {
        // the iterator accepted the glyph data: the buffer-based reader must agree
        assert!(r.is_ok());
        let k: usize = kani::any();
        kani::assume(k < n);
        let p = a[k].expect("n points");
        assert!(pts[k].x == p.x as i32 && pts[k].y == p.y as i32 && fl[k].is_on_curve() == p.on_curve);
        kani::cover!(n == 3 && k == 2, "third point");
    }
}

// @bound SimpleGlyph on 19 ARBITRARY symbolic bytes (1 contour, no instructions, so 5 bytes of flag/coordinate data), exactly 3 points: read_points_fast with matching buffers never panics; mismatching buffers are rejected; unwind 7
// @c20 thorough
// @c01 thorough
// @tier thorough
// @timeout 3600
// @mem 30
#[cfg_attr(kani, kani::proof)]
#[cfg_attr(kani, kani::unwind(7))]
pub fn c09_simple_glyph_total() {
    let buf: [u8; 19] = kani::any();
    let Ok(g) = SimpleGlyph::read(FontData::new(&buf)) else { return };
    kani::assume(g.number_of_contours() == 1 && g.instruction_length() == 0);
    let n = g.num_points();
    let _ = g.has_overlapping_contours();
    kani::assume(n == 3);
    let mut pts = [Point::<i32>::default(); 3];
    let mut fl = [PointFlags::default(); 3];
    let r = g.read_points_fast(&mut pts, &mut fl);
    let m: usize = kani::any();
    kani::assume(m < 3);
    assert!(g.read_points_fast(&mut pts[..m], &mut fl[..m]).is_err());
    kani::cover!(r.is_ok(), "three points decoded");
}

// @bound SimpleGlyph with a concrete frame (1 contour, 2 points, no instructions) and 8 ARBITRARY symbolic data bytes: for flag encodings with REPEAT counts >= 1 (what the writer emits), read_points_fast (the buffer-based decoder used for drawing) equals the spec decoding for point k (symbolic k): flags incl. REPEAT, short / same / long x and y deltas with wrapping accumulation, on-curve bit, coordinates compared modulo 2^16 (read_points_fast accumulates in i32 like FreeType, points() in i16); unwind 5
// @c20
// @c01
// @timeout 700
#[cfg_attr(kani, kani::proof)]
#[cfg_attr(kani, kani::unwind(5))]
pub fn c09_read_points_fast_matches_spec_2_points() {
    let d: [u8; 8] = kani::any();
    let bb: [u8; 8] = kani::any();
    let buf = [
        0, 1, bb[0], bb[1], bb[2], bb[3], bb[4], bb[5], bb[6], bb[7], 0, 1, 0, 0, d[0], d[1], d[2], d[3], d[4], d[5], d[6], d[7],
    ];
    // flag encodings the glyph writer can produce: a REPEAT flag carries a count >= 1 (so the flag
    // bytes never outnumber the points). read_points_fast reads at most n_points flag bytes and
    // rejects / misreads the (legal but never written) encodings with a zero repeat count that
    // points() and FreeType accept -- noted in DESIGN.md as an observation outside the properties
    kani::assume(if d[0] & 0x08 != 0 { d[1] >= 1 } else { d[1] & 0x08 == 0 });
    let Ok(g) = SimpleGlyph::read(FontData::new(&buf)) else { return };
    let mut pts = [Point::<i32>::default(); 2];
    let mut fl = [PointFlags::default(); 2];
    let r = g.read_points_fast(&mut pts, &mut fl);
    let k: usize = kani::any();
    kani::assume(k < 2);
    match spec_point(&d, 2, k) {
        Some((x, y, on)) => {
            assert!(r.is_ok());
            // (read_points_fast accumulates in i32 like FreeType, points() wraps in i16: compared modulo 2^16)
            assert!(pts[k].x as i16 == x && pts[k].y as i16 == y);
            assert!(fl[k].is_on_curve() == on);
            kani::cover!(k == 1 && d[0] & 0x08 != 0, "second point through a repeat flag");
            kani::cover!(k == 1 && d[0] & 0x12 == 0, "long x delta");
        }
        // malformed for the spec decoder (out of data, or a repeat run past the last point, which
        // read_points_fast clamps instead): no agreement required, only totality
        None => {}
    }
}

// @bound SimpleGlyph with a concrete frame (1 contour, 3 points, no instructions) and 3 ARBITRARY symbolic bytes of flag data (no room for coordinate bytes: points can still decode through the same-as-previous flags): read_points_fast never panics (3 points is the smallest glyph in which a repeat count can follow a non-repeated flag); unwind 5
// @c20
// @c01
// @timeout 700
// @playback-first
#[cfg_attr(kani, kani::proof)]
#[cfg_attr(kani, kani::unwind(5))]
pub fn c09_read_points_fast_total_3_points() {
    let d: [u8; 3] = kani::any();
    let bb: [u8; 8] = kani::any();
    let buf = [0, 1, bb[0], bb[1], bb[2], bb[3], bb[4], bb[5], bb[6], bb[7], 0, 2, 0, 0, d[0], d[1], d[2]];
    let Ok(g) = SimpleGlyph::read(FontData::new(&buf)) else { return };
    let mut pts = [Point::<i32>::default(); 3];
    let mut fl = [PointFlags::default(); 3];
    let r = g.read_points_fast(&mut pts, &mut fl);
    kani::cover!(r.is_ok() && d[1] & 0x08 != 0, "points decoded through a repeat flag");
    kani::cover!(r.is_err(), "truncated data rejected");
}

// @bound SimpleGlyph on 20 ARBITRARY symbolic bytes: points() first 3 items never panic; unwind 8
// @c20
// @c01
// @timeout 1200
#[cfg_attr(kani, kani::proof)]
#[cfg_attr(kani, kani::unwind(8))]
pub fn c09_simple_glyph_iter_total() {
    let buf: [u8; 20] = kani::any();
    let len: usize = kani::any();
    kani::assume(len <= 20);
    let Ok(g) = SimpleGlyph::read(FontData::new(&buf[..len])) else { return };
    let mut it = g.points();
    let a = it.next();
    let _ = it.next();
    let _ = it.next();
    kani::cover!(a.is_some(), "a point");
}
