//! C10 (reader half): packed point numbers and packed deltas vs the spec's decoding algorithm.
//! @assume IUP optimisation, GlyphVariations building and drawing at a location are outside this check
use font_types::*;
use read_fonts::tables::variations::*;
use read_fonts::*;
#[cfg(not(kani))]
use crate::kani;

/// Spec decoder for packed point numbers: returns the i-th point number (or None when the
/// data ends first / i >= count). count == 0 means "all points": 0, 1, 2, ...
fn spec_point(b: &[u8], want: usize) -> Option<u16> {
    if b.is_empty() {
        // reader treats missing data as count 0 ("all points")
        return Some(want as u16);
    }
    let (count, mut pos) = if b[0] & 0x80 != 0 {
        if b.len() < 2 {
            (0usize, 2usize)
        } else {
            ((((b[0] & 0x7F) as usize) << 8) | b[1] as usize, 2)
        }
    } else {
        (b[0] as usize, 1)
    };
    if count == 0 {
        return Some(want as u16);
    }
    if want >= count {
        return None;
    }
    let mut seen = 0usize;
    let mut last: u32 = 0;
    // at most `want + 1` values are needed
    while pos < b.len() {
        let control = b[pos];
        pos += 1;
        let words = control & 0x80 != 0;
        let run = (control & 0x7F) as usize + 1;
        let mut k = 0;
        while k < run {
            let v = if words {
                if pos + 2 > b.len() {
                    return None;
                }
                let v = ((b[pos] as u32) << 8) | b[pos + 1] as u32;
                pos += 2;
                v
            } else {
                if pos + 1 > b.len() {
                    return None;
                }
                let v = b[pos] as u32;
                pos += 1;
                v
            };
            last += v;
            if last > 0xFFFF {
                return None;
            }
            if seen == want {
                return Some(last as u16);
            }
            seen += 1;
            k += 1;
        }
    }
    None
}

// @bound packed point numbers on <= 8 symbolic bytes: items 0..3 of iter() equal the spec decoder, count() equals the spec count; unwind 10
// @c20
// @c01
// @timeout 900
#[cfg_attr(kani, kani::proof)]
#[cfg_attr(kani, kani::unwind(10))]
pub fn c10_packed_points_match_spec() {
    let buf: [u8; 8] = kani::any();
    let len: usize = kani::any();
    kani::assume(len <= 8);
    let data = FontData::new(&buf[..len]);
    let (pp, rest) = PackedPointNumbers::split_off_front(data);
    assert!(rest.len() <= len);
    let mut it = pp.iter();
    let mut i = 0;
    while i < 4 {
        let got = it.next();
        let exp = spec_point(&buf[..len], i);
        assert!(got == exp);
        if got.is_none() {
            break;
        }
        i += 1;
    }
    kani::cover!(i == 4 && len > 0 && buf[0] == 4, "four explicit points");
    kani::cover!(len > 1 && buf[0] == 2 && buf[1] & 0x80 != 0 && i >= 2, "word run");
}

/// Spec decoder for packed deltas: the i-th delta, or None if the data ends first.
fn spec_delta(b: &[u8], want: usize) -> Option<i32> {
    let mut pos = 0usize;
    let mut seen = 0usize;
    while pos < b.len() {
        let control = b[pos];
        pos += 1;
        let run = (control & 0x3F) as usize + 1;
        let zero = control & 0x80 != 0;
        let words = control & 0x40 != 0;
        let size = match (zero, words) {
            (true, false) => 0,
            (false, false) => 1,
            (false, true) => 2,
            (true, true) => 4,
        };
        if want < seen + run {
            let at = pos + (want - seen) * size;
            if at + size > b.len() {
                return None;
            }
            return Some(match size {
                0 => 0,
                1 => b[at] as i8 as i32,
                2 => (((b[at] as u16) << 8) | b[at + 1] as u16) as i16 as i32,
                _ => i32::from_be_bytes([b[at], b[at + 1], b[at + 2], b[at + 3]]),
            });
        }
        seen += run;
        pos += run * size;
    }
    None
}

// @bound packed deltas on <= 10 symbolic bytes: items 0..4 of consume_all().iter() equal the spec decoder (8/16/32-bit and zero runs); unwind 12
// @c20
// @c01
// @timeout 900
#[cfg_attr(kani, kani::proof)]
#[cfg_attr(kani, kani::unwind(12))]
pub fn c10_packed_deltas_match_spec() {
    let buf: [u8; 10] = kani::any();
    let len: usize = kani::any();
    kani::assume(len <= 10);
    let pd = PackedDeltas::consume_all(FontData::new(&buf[..len]));
    let mut it = pd.iter();
    let mut i = 0;
    while i < 5 {
        let got = it.next();
        let exp = spec_delta(&buf[..len], i);
        assert!(got == exp);
        if got.is_none() {
            break;
        }
        i += 1;
    }
    kani::cover!(i == 5, "five deltas");
    kani::cover!(len > 0 && buf[0] & 0xC0 == 0xC0 && i >= 1, "32-bit run");
    kani::cover!(len > 3 && buf[0] == 0x80 && i >= 2, "zero run then more");
}
