//! Runtime of the generated table walker (see gen/gen_read_walk.py).
//!
//! `Walk::walk` calls every accessor of a successfully read value. Dispatch on "does this
//! return type have a walker" is done at each generated call site with autoref specialisation
//! (`walk_any!`), so a getter whose result type is unknown to the walker is still *called*.
use core::cell::Cell;
use font_types::*;
use read_fonts::array::{ComputedArray, VarLenArray};
use read_fonts::{
    ArrayOfNullableOffsets, ArrayOfOffsets, ComputeSize, FontData, FontRead, FontReadWithArgs,
    Offset, ReadArgs, VarSize,
};

#[cfg(not(kani))]
use crate::kani;

#[derive(Clone, Copy)]
pub struct Cx<'a> {
    /// data against which record-level offsets are resolved (the enclosing table's data)
    pub data: FontData<'a>,
    /// how many more table levels are walked (offsets are *resolved* one level further)
    pub depth: u32,
}

pub trait Walk<'a> {
    fn walk(&self, cx: Cx<'a>);
}

pub struct Wrap<T>(pub Cell<Option<T>>);
impl<T> Wrap<T> {
    pub fn new(v: T) -> Self {
        Wrap(Cell::new(Some(v)))
    }
}

pub trait L1<'a> {
    fn verif_go(&self, cx: Cx<'a>) -> core::iter::Empty<()>;
}
impl<'a, T: Walk<'a>> L1<'a> for &&Wrap<T> {
    fn verif_go(&self, cx: Cx<'a>) -> core::iter::Empty<()> {
        if let Some(v) = self.0.take() {
            v.walk(cx);
        }
        core::iter::empty()
    }
}
pub trait L2<'a> {
    type It: Iterator;
    fn verif_go(&self, cx: Cx<'a>) -> Self::It;
}
impl<'a, T: Iterator> L2<'a> for &Wrap<T> {
    type It = core::iter::Flatten<core::option::IntoIter<T>>;
    fn verif_go(&self, _cx: Cx<'a>) -> Self::It {
        self.0.take().into_iter().flatten()
    }
}
pub trait L3<'a> {
    fn verif_go(&self, cx: Cx<'a>) -> core::iter::Empty<()>;
}
impl<'a, T> L3<'a> for Wrap<T> {
    fn verif_go(&self, _cx: Cx<'a>) -> core::iter::Empty<()> {
        core::iter::empty()
    }
}

pub trait M1<'a> {
    fn verif_leaf(&self, cx: Cx<'a>);
}
impl<'a, T: Walk<'a>> M1<'a> for &Wrap<T> {
    fn verif_leaf(&self, cx: Cx<'a>) {
        if let Some(v) = self.0.take() {
            v.walk(cx);
        }
    }
}
pub trait M2<'a> {
    fn verif_leaf(&self, cx: Cx<'a>);
}
impl<'a, T> M2<'a> for Wrap<T> {
    fn verif_leaf(&self, _cx: Cx<'a>) {}
}

/// number of items taken from any iterator a getter returns
#[macro_export]
macro_rules! walk_any {
    ($e:expr, $cx:expr) => {{
        #[allow(unused_imports)]
        use $crate::walk::{L1 as _, L2 as _, L3 as _, M1 as _, M2 as _};
        let __w = $crate::walk::Wrap::new($e);
        #[allow(unused_mut)]
        let mut __it = (&&&__w).verif_go($cx);
        let __a = $crate::walk::Wrap::new(__it.next());
        (&&__a).verif_leaf($cx);
        let __b = $crate::walk::Wrap::new(__it.next());
        (&&__b).verif_leaf($cx);
        let __c = $crate::walk::Wrap::new(__it.next());
        (&&__c).verif_leaf($cx);
    }};
}

macro_rules! leaf {
    ($($t:ty),*) => {$( impl<'a> Walk<'a> for $t { #[inline] fn walk(&self, _cx: Cx<'a>) {} } )*};
}
leaf!(
    u8, i8, u16, i16, u32, i32, u64, i64, usize, bool, char, f32, f64, (), Uint24, Int24, F2Dot14,
    F4Dot12, F6Dot10, Fixed, F26Dot6, FWord, UfWord, Version16Dot16, MajorMinor, LongDateTime, Tag,
    GlyphId, GlyphId16, NameId, Offset16, Offset24, Offset32, Nullable<Offset16>,
    Nullable<Offset24>, Nullable<Offset32>, core::ops::Range<usize>, &str, read_fonts::ReadError
);

impl<'a> Walk<'a> for FontData<'a> {
    fn walk(&self, _cx: Cx<'a>) {
        let _ = self.len();
        let _ = self.is_empty();
    }
}

impl<'a, T: Scalar + Walk<'a> + Copy> Walk<'a> for BigEndian<T> {
    fn walk(&self, cx: Cx<'a>) {
        self.get().walk(cx)
    }
}

impl<'a, T: Walk<'a>> Walk<'a> for &[T] {
    fn walk(&self, cx: Cx<'a>) {
        let n = self.len();
        if n > 0 {
            self[0].walk(cx);
            self[n - 1].walk(cx);
            self[n / 2].walk(cx);
        }
    }
}

impl<'a, T: Walk<'a>> Walk<'a> for &T {
    fn walk(&self, cx: Cx<'a>) {
        (**self).walk(cx)
    }
}

impl<'a, T: Walk<'a>> Walk<'a> for Option<T> {
    fn walk(&self, cx: Cx<'a>) {
        if let Some(v) = self {
            v.walk(cx)
        }
    }
}

impl<'a, T: Walk<'a>, E> Walk<'a> for Result<T, E> {
    fn walk(&self, cx: Cx<'a>) {
        if let Ok(v) = self {
            v.walk(cx)
        }
    }
}

impl<'a, A: Walk<'a>, B: Walk<'a>> Walk<'a> for (A, B) {
    fn walk(&self, cx: Cx<'a>) {
        self.0.walk(cx);
        self.1.walk(cx);
    }
}

impl<'a, A: Walk<'a>, B: Walk<'a>, C: Walk<'a>> Walk<'a> for (A, B, C) {
    fn walk(&self, cx: Cx<'a>) {
        self.0.walk(cx);
        self.1.walk(cx);
        self.2.walk(cx);
    }
}

impl<'a, T> Walk<'a> for ComputedArray<'a, T>
where
    T: FontReadWithArgs<'a> + ComputeSize + Walk<'a>,
    T::Args: Copy + 'static,
{
    fn walk(&self, cx: Cx<'a>) {
        let n = self.len();
        let _ = self.is_empty();
        self.get(0).walk(cx);
        if n > 0 {
            self.get(n - 1).walk(cx);
        }
        let i: usize = kani::any();
        self.get(i).walk(cx);
        let mut it = self.iter();
        it.next().walk(cx);
        it.next().walk(cx);
    }
}

impl<'a, T> Walk<'a> for VarLenArray<'a, T>
where
    T: FontRead<'a> + VarSize + Walk<'a>,
{
    fn walk(&self, cx: Cx<'a>) {
        self.get(0).walk(cx);
        self.get(1).walk(cx);
        let i: u8 = kani::any();
        self.get(i as usize).walk(cx);
        let mut it = self.iter();
        it.next().walk(cx);
        it.next().walk(cx);
        it.next().walk(cx);
    }
}

impl<'a, T, O> Walk<'a> for ArrayOfOffsets<'a, T, O>
where
    O: Scalar + Offset,
    T: ReadArgs + FontReadWithArgs<'a> + Walk<'a>,
    T::Args: Copy + 'static,
{
    fn walk(&self, cx: Cx<'a>) {
        let n = self.len();
        let _ = self.is_empty();
        self.get(0).walk(cx);
        if n > 1 {
            self.get(n - 1).walk(cx);
        }
        let i: usize = kani::any();
        let _ = self.get(i).is_ok();
        let mut it = self.iter();
        let _ = it.next().map(|r| r.is_ok());
        let _ = it.next().map(|r| r.is_ok());
    }
}

impl<'a, T, O> Walk<'a> for ArrayOfNullableOffsets<'a, T, O>
where
    O: Scalar + Offset,
    T: ReadArgs + FontReadWithArgs<'a> + Walk<'a>,
    T::Args: Copy + 'static,
{
    fn walk(&self, cx: Cx<'a>) {
        let n = self.len();
        let _ = self.is_empty();
        self.get(0).walk(cx);
        if n > 1 {
            self.get(n - 1).walk(cx);
        }
        let i: usize = kani::any();
        let _ = self.get(i).map(|r| r.is_ok());
        let mut it = self.iter();
        let _ = it.next().map(|r| r.map(|r| r.is_ok()));
        let _ = it.next().map(|r| r.map(|r| r.is_ok()));
    }
}

/// symbolic normalized coordinates: a prefix (symbolic length 0..=2) of two symbolic values
pub fn coords(c: &([F2Dot14; 2], usize)) -> &[F2Dot14] {
    let n = c.1;
    kani::assume(n <= 2);
    &c.0[..n]
}
