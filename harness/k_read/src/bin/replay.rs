fn main() {
    let path = std::env::args().nth(1).expect("replay file");
    let (name, vals) = k_read::kani::read_replay_file(&path);
    k_read::kani::load(vals);
    match k_read::dispatch(&name) {
        Some(f) => f(),
        None => panic!("VERIF-REPLAY-DIVERGED: unknown harness {name}"),
    }
    println!("VERIF-REPLAY-COMPLETED");
}
