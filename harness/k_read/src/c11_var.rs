//! C11 (read/arith half): axis normalisation, avar segment maps, region scalars, index maps.
//! @assume VariationStoreBuilder (write-fonts) is outside this check
use font_types::*;
use read_fonts::tables::avar::*;
use read_fonts::tables::fvar::*;
use read_fonts::tables::variations::*;
use read_fonts::*;
#[cfg(not(kani))]
use crate::kani;

fn axis(min: i32, def: i32, max: i32) -> VariationAxisRecord {
    VariationAxisRecord {
        axis_tag: Tag::new(b"wght").into(),
        min_value: Fixed::from_bits(min).into(),
        default_value: Fixed::from_bits(def).into(),
        max_value: Fixed::from_bits(max).into(),
        flags: 0u16.into(),
        axis_name_id: NameId::new(256).into(),
    }
}

/// q is n/d rounded half away from zero (n, d > 0 after taking magnitudes)
fn is_rounded_quotient(n: i64, d: i64, q: i64) -> bool {
    let (an, ad, aq) = (n.unsigned_abs(), d.unsigned_abs(), q.unsigned_abs());
    let sign_ok = q == 0 || ((q < 0) == ((n < 0) != (d < 0)));
    sign_ok && 2 * aq * ad + ad > 2 * an && 2 * aq * ad <= 2 * an + ad
}

// @bound normalize for ALL (min, default, max, value) in i32^4: never panics (any axis record a font can hold, any user value), result within [-1, 1], default maps to 0
// @c20
// @c01
#[cfg_attr(kani, kani::proof)]
pub fn c11_normalize_total_and_clamped() {
    let (min, def, max, v): (i32, i32, i32, i32) = (kani::any(), kani::any(), kani::any(), kani::any());
    let a = axis(min, def, max);
    let r = a.normalize(Fixed::from_bits(v)).to_bits();
    assert!(r >= -0x10000 && r <= 0x10000);
    if min <= def && def <= max {
        assert!(a.normalize(Fixed::from_bits(def)).to_bits() == 0);
    }
    kani::cover!(r == 0x10000, "clamps high");
    kani::cover!(min > max, "malformed axis");
}

// @bound normalize on the slice |min|,|default|,|max|,|value| < 2^13 raw bits with min<=default<=max: min->-1, max->+1, exact rounded quotient in between, monotone in value
// @timeout 900
#[cfg_attr(kani, kani::proof)]
pub fn c11_normalize_matches_spec_slice() {
    let (min, def, max, v): (i32, i32, i32, i32) = (kani::any(), kani::any(), kani::any(), kani::any());
    kani::assume(min.unsigned_abs() < 1 << 13 && def.unsigned_abs() < 1 << 13 && max.unsigned_abs() < 1 << 13 && v.unsigned_abs() < 1 << 13);
    kani::assume(min <= def && def <= max);
    let a = axis(min, def, max);
    let r = a.normalize(Fixed::from_bits(v)).to_bits();
    if min < def {
        assert!(a.normalize(Fixed::from_bits(min)).to_bits() == -0x10000);
    }
    if def < max {
        assert!(a.normalize(Fixed::from_bits(max)).to_bits() == 0x10000);
    }
    let c = v.clamp(min, max);
    if c < def {
        assert!(is_rounded_quotient(((c - def) as i64) << 16, (def - min) as i64, r as i64));
    } else if c > def {
        assert!(is_rounded_quotient(((c - def) as i64) << 16, (max - def) as i64, r as i64));
    } else {
        assert!(r == 0);
    }
    kani::cover!(c < def && r != -0x10000, "interior below default");
}

// @bound normalize monotone: v1 <= v2 => normalize(v1) <= normalize(v2), on the slice |.| < 2^11
// @timeout 900
#[cfg_attr(kani, kani::proof)]
pub fn c11_normalize_monotone_slice() {
    let (min, def, max, v1, v2): (i32, i32, i32, i32, i32) = (kani::any(), kani::any(), kani::any(), kani::any(), kani::any());
    kani::assume(min.unsigned_abs() < 1 << 11 && def.unsigned_abs() < 1 << 11 && max.unsigned_abs() < 1 << 11);
    kani::assume(v1.unsigned_abs() < 1 << 11 && v2.unsigned_abs() < 1 << 11);
    kani::assume(min <= def && def <= max && v1 <= v2);
    let a = axis(min, def, max);
    assert!(a.normalize(Fixed::from_bits(v1)) <= a.normalize(Fixed::from_bits(v2)));
    kani::cover!(v1 < def && v2 > def, "straddles default");
}

// @bound SegmentMaps::apply with <= 3 symbolic maps (14 bytes), strictly ascending `from`, |coord| < 4.0: exact at map points, identity before the first point and after the last, linear (exact rounded quotient) inside a segment; unwind 5
// @c20
// @c01
// @timeout 900
#[cfg_attr(kani, kani::proof)]
#[cfg_attr(kani, kani::unwind(5))]
pub fn c11_segment_maps_apply_matches_spec() {
    let buf: [u8; 14] = kani::any();
    let len: usize = kani::any();
    kani::assume(len <= 14);
    let Ok(sm) = SegmentMaps::read(FontData::new(&buf[..len])) else { return };
    let maps = sm.axis_value_maps();
    let mut i = 1;
    while i < maps.len() {
        kani::assume(maps[i - 1].from_coordinate() < maps[i].from_coordinate());
        i += 1;
    }
    let c: i32 = kani::any();
    kani::assume(c.unsigned_abs() < 0x40000);
    let r = sm.apply(Fixed::from_bits(c)).to_bits();
    let n = maps.len();
    if n == 0 {
        assert!(r == c);
        return;
    }
    let from = |i: usize| maps[i].from_coordinate().to_fixed().to_bits();
    let to = |i: usize| maps[i].to_coordinate().to_fixed().to_bits();
    if c < from(0) || c > from(n - 1) {
        assert!(r == c);
    }
    let mut i = 0;
    while i < n {
        if c == from(i) {
            assert!(r == to(i));
        }
        if i > 0 && c > from(i - 1) && c < from(i) {
            let q = r as i64 - to(i - 1) as i64;
            assert!(is_rounded_quotient(
                (to(i) - to(i - 1)) as i64 * (c - from(i - 1)) as i64,
                (from(i) - from(i - 1)) as i64,
                q
            ));
            // between the neighbouring `to` values
            let (lo, hi) = (to(i - 1).min(to(i)), to(i - 1).max(to(i)));
            assert!(r >= lo && r <= hi);
            kani::cover!(true, "interior of a segment");
        }
        i += 1;
    }
}

// @bound SegmentMaps::apply on 14 ARBITRARY symbolic bytes and ANY 32-bit coord: no panic / overflow; unwind 5
// @c20
// @c01
#[cfg_attr(kani, kani::proof)]
#[cfg_attr(kani, kani::unwind(5))]
pub fn c11_segment_maps_apply_total() {
    let buf: [u8; 14] = kani::any();
    let len: usize = kani::any();
    kani::assume(len <= 14);
    let Ok(sm) = SegmentMaps::read(FontData::new(&buf[..len])) else { return };
    let _ = sm.apply(Fixed::from_bits(kani::any()));
    kani::cover!(sm.axis_value_maps().len() == 3, "three maps");
}

// @bound VariationRegion (1 axis, 6 symbolic bytes) scalar at any F2Dot14 coordinate vs the spec tent function (exact rounded quotient)
// @c20
// @c01
#[cfg_attr(kani, kani::proof)]
#[cfg_attr(kani, kani::unwind(4))]
pub fn c11_region_scalar_matches_spec_1axis() {
    let buf: [u8; 6] = kani::any();
    let Ok(reg) = VariationRegion::read_with_args(FontData::new(&buf), &1u16) else { return };
    let ax = &reg.region_axes()[0];
    let (s, p, e) = (
        ax.start_coord().to_fixed().to_bits() as i64,
        ax.peak_coord().to_fixed().to_bits() as i64,
        ax.end_coord().to_fixed().to_bits() as i64,
    );
    let cbits: i16 = kani::any();
    let coords = [F2Dot14::from_bits(cbits)];
    let ncoords: usize = kani::any();
    kani::assume(ncoords <= 1);
    let c = if ncoords == 1 { (cbits as i64) * 4 } else { 0 };
    let r = reg.compute_scalar(&coords[..ncoords]).to_bits() as i64;
    if s > p || p > e || p == 0 || (s < 0 && e > 0) {
        assert!(r == 0x10000);
    } else if c < s || c > e {
        assert!(r == 0);
    } else if c == p {
        assert!(r == 0x10000);
    } else if c < p {
        assert!(is_rounded_quotient(0x10000 * (c - s), p - s, r));
        assert!(r >= 0 && r <= 0x10000);
    } else {
        assert!(is_rounded_quotient(0x10000 * (e - c), e - p, r));
        assert!(r >= 0 && r <= 0x10000);
    }
    kani::cover!(c > s && c < p, "rising edge");
    kani::cover!(c > p && c < e, "falling edge");
}

// @bound DeltaSetIndexMap (format 0/1, 16 symbolic bytes) get(any index) vs spec: entry = big-endian entrySize bytes at min(index, mapCount-1), outer = entry >> bits, inner = entry & mask
// @c20
// @c01
#[cfg_attr(kani, kani::proof)]
#[cfg_attr(kani, kani::unwind(6))]
pub fn c11_delta_set_index_map_matches_spec() {
    let buf: [u8; 16] = kani::any();
    let len: usize = kani::any();
    kani::assume(len <= 16);
    let Ok(m) = DeltaSetIndexMap::read(FontData::new(&buf[..len])) else { return };
    let (fmt, count, data) = match &m {
        DeltaSetIndexMap::Format0(f) => (f.entry_format(), f.map_count() as u32, f.map_data()),
        DeltaSetIndexMap::Format1(f) => (f.entry_format(), f.map_count(), f.map_data()),
    };
    let idx: u32 = kani::any();
    let got = m.get(idx);
    let size = (((fmt.bits() >> 4) & 3) + 1) as usize;
    let bits = ((fmt.bits() & 0xF) + 1) as u32;
    if count == 0 {
        return;
    }
    let i = idx.min(count - 1) as usize;
    if (i + 1) * size <= data.len() {
        let mut entry: u32 = 0;
        let mut k = 0;
        while k < size {
            entry = (entry << 8) | data[i * size + k] as u32;
            k += 1;
        }
        let d = got.expect("in-bounds entry");
        assert!(d.outer == (entry >> bits) as u16);
        assert!(d.inner == (entry & ((1u32 << bits) - 1)) as u16);
        kani::cover!(size == 3, "24-bit entries");
        kani::cover!(idx >= count, "clamped index");
    } else {
        assert!(got.is_err());
    }
}
