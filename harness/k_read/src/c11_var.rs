//! C11 (read/arith half): axis normalisation, avar segment maps, region scalars, index maps.
//! @assume VariationStoreBuilder (write-fonts) is outside this check
use font_types::*;
use read_fonts::tables::avar::*;
use read_fonts::tables::fvar::*;
use read_fonts::tables::variations::*;
use read_fonts::*;
#[cfg(not(kani))]
use crate::kani;

fn axis(min: i32, def: i32, max: i32) -> VariationAxisRecord {
    VariationAxisRecord {
        axis_tag: Tag::new(b"wght").into(),
        min_value: Fixed::from_bits(min).into(),
        default_value: Fixed::from_bits(def).into(),
        max_value: Fixed::from_bits(max).into(),
        flags: 0u16.into(),
        axis_name_id: NameId::new(256).into(),
    }
}

/// q is n/d rounded half away from zero (n, d > 0 after taking magnitudes)
fn is_rounded_quotient(n: i64, d: i64, q: i64) -> bool {
    let (an, ad, aq) = (n.unsigned_abs(), d.unsigned_abs(), q.unsigned_abs());
    let sign_ok = q == 0 || ((q < 0) == ((n < 0) != (d < 0)));
    sign_ok && 2 * aq * ad + ad > 2 * an && 2 * aq * ad <= 2 * an + ad
}

/// Recording stub for `Fixed::mul_div` (assume-guarantee). C15's E2 queries prove, at full
/// width, that the real `mul_div` returns the exact quotient s*a/b rounded half away from zero
/// (saturating for b == 0). The C11 harnesses that are about *how mul_div is used* replace it by
/// an uninterpreted function: the stub records its arguments and returns a fresh symbolic value;
/// the harness then asserts that the caller passed exactly the operands the spec formula names
/// and used the returned value unchanged. No divider (which CBMC cannot bit-blast in time) and no
/// multiplier is left in the query. On native replay the real mul_div runs instead.
#[cfg(kani)]
pub static mut MUL_DIV_CALLS: [(i32, i32, i32, i32); 2] = [(0, 0, 0, 0); 2];
#[cfg(kani)]
pub static mut MUL_DIV_N: usize = 0;

#[cfg(kani)]
pub fn mul_div_spec(s: &Fixed, a: Fixed, b: Fixed) -> Fixed {
    let q: i32 = kani::any();
    unsafe {
        if MUL_DIV_N < 2 {
            MUL_DIV_CALLS[MUL_DIV_N] = (s.to_bits(), a.to_bits(), b.to_bits(), q);
        }
        MUL_DIV_N += 1;
    }
    Fixed::from_bits(q)
}

/// `r == s.mul_div(a, b)` with mul_div uninterpreted (Kani) / real (native replay)
fn is_mul_div_of(call: usize, r: i32, s: i32, a: i32, b: i32) -> bool {
    #[cfg(kani)]
    unsafe {
        let (cs, ca, cb, q) = MUL_DIV_CALLS[call];
        return MUL_DIV_N > call && cs == s && ca == a && cb == b && r == q;
    }
    #[cfg(not(kani))]
    {
        let _ = call;
        r == Fixed::from_bits(s).mul_div(Fixed::from_bits(a), Fixed::from_bits(b)).to_bits()
    }
}

#[cfg(kani)]
pub static mut DIV_CALLS: [(i32, i32, i32); 2] = [(0, 0, 0); 2];
#[cfg(kani)]
pub static mut DIV_N: usize = 0;

/// recording stub for `<Fixed as Div>::div` (same assume-guarantee argument as mul_div_spec)
#[cfg(kani)]
pub fn div_spec(a: Fixed, b: Fixed) -> Fixed {
    let q: i32 = kani::any();
    // the one consequence of the proven spec the callers rely on: when the exact quotient is
    // representable its sign is the product of the operand signs (shifts and compares only)
    let (ua, ub) = (a.to_bits().unsigned_abs() as u128, b.to_bits().unsigned_abs() as u128);
    if ub != 0 && (ua << 17) + ub < (ub << 32) {
        kani::assume(q == 0 || ((q < 0) == ((a.to_bits() < 0) != (b.to_bits() < 0))));
    }
    unsafe {
        if DIV_N < 2 {
            DIV_CALLS[DIV_N] = (a.to_bits(), b.to_bits(), q);
        }
        DIV_N += 1;
    }
    Fixed::from_bits(q)
}

fn is_div_of(call: usize, r: i32, a: i32, b: i32) -> bool {
    #[cfg(kani)]
    unsafe {
        let (ca, cb, q) = DIV_CALLS[call];
        return DIV_N > call && ca == a && cb == b && r == q;
    }
    #[cfg(not(kani))]
    {
        let _ = call;
        r == (Fixed::from_bits(a) / Fixed::from_bits(b)).to_bits()
    }
}

fn mul_div_calls() -> usize {
    #[cfg(kani)]
    unsafe {
        return MUL_DIV_N;
    }
    #[cfg(not(kani))]
    0
}

// @bound normalize for ALL (min, default, max, value) in i32^4: never panics (any axis record a font can hold, any user value), result within [-1, 1], default maps to 0
// @c20
// @c01
#[cfg_attr(kani, kani::proof)]
pub fn c11_normalize_total_and_clamped() {
    let (min, def, max, v): (i32, i32, i32, i32) = (kani::any(), kani::any(), kani::any(), kani::any());
    let a = axis(min, def, max);
    let r = a.normalize(Fixed::from_bits(v)).to_bits();
    assert!(r >= -0x10000 && r <= 0x10000);
    if min <= def && def <= max {
        assert!(a.normalize(Fixed::from_bits(def)).to_bits() == 0);
    }
    kani::cover!(r == 0x10000, "clamps high");
    kani::cover!(min > max, "malformed axis");
}

// @bound normalize for ALL (min, default, max, value) in i32^4 with min <= default <= max: the result is clamp(+-(|value' - default| / |bound - default|)) with value' = clamp(value, min, max), i.e. exactly one division with exactly those operands; min -> -1, default -> 0, max -> +1
// @assume `Fixed / Fixed` is an uninterpreted function in this query (recording stub); that the real Div is the exact rounded quotient is decided at full width by the E2 queries of C15
#[cfg_attr(kani, kani::proof)]
#[cfg_attr(kani, kani::stub(<font_types::Fixed as core::ops::Div>::div, div_spec))]
pub fn c11_normalize_matches_spec() {
    let (min, def, max, v): (i32, i32, i32, i32) = (kani::any(), kani::any(), kani::any(), kani::any());
    kani::assume(min <= def && def <= max);
    let a = axis(min, def, max);
    let r = a.normalize(Fixed::from_bits(v)).to_bits();
    let c = v.clamp(min, max);
    let sat_sub = |x: i32, y: i32| x.saturating_sub(y);
    if c == def {
        assert!(r == 0);
    } else if c < def {
        // -((default - value) / (default - min)), then clamped to [-1, 1]
        #[cfg(kani)]
        let q = unsafe { DIV_CALLS[0].2 };
        #[cfg(not(kani))]
        let q = (Fixed::from_bits(sat_sub(def, c)) / Fixed::from_bits(sat_sub(def, min))).to_bits();
        assert!(is_div_of(0, q, sat_sub(def, c), sat_sub(def, min)));
        if q != i32::MIN {
            assert!(r == (-q).clamp(-0x10000, 0x10000));
        }
    } else {
        #[cfg(kani)]
        let q = unsafe { DIV_CALLS[0].2 };
        #[cfg(not(kani))]
        let q = (Fixed::from_bits(sat_sub(c, def)) / Fixed::from_bits(sat_sub(max, def))).to_bits();
        assert!(is_div_of(0, q, sat_sub(c, def), sat_sub(max, def)));
        assert!(r == q.clamp(-0x10000, 0x10000));
    }
    kani::cover!(c < def, "below default");
    kani::cover!(c > def, "above default");
}

// @bound SegmentMaps::apply with <= 3 symbolic maps (14 bytes), strictly ascending `from`, |coord| < 4.0: exact at map points, identity before the first point and after the last, inside a segment = prev_to + mul_div(to - prev_to, coord - prev_from, from - prev_from); unwind 5
// @assume Fixed::mul_div is an uninterpreted function in this query (recording stub); that the real mul_div is the exact rounded quotient is decided at full width by the E2 queries of C15
// @timeout 900
#[cfg_attr(kani, kani::proof)]
#[cfg_attr(kani, kani::stub(font_types::Fixed::mul_div, mul_div_spec))]
#[cfg_attr(kani, kani::unwind(5))]
pub fn c11_segment_maps_apply_matches_spec() {
    let buf: [u8; 14] = kani::any();
    let len: usize = kani::any();
    kani::assume(len <= 14);
    let Ok(sm) = SegmentMaps::read(FontData::new(&buf[..len])) else { return };
    let maps = sm.axis_value_maps();
    let mut i = 1;
    while i < maps.len() {
        kani::assume(maps[i - 1].from_coordinate() < maps[i].from_coordinate());
        i += 1;
    }
    let c: i32 = kani::any();
    kani::assume(c.unsigned_abs() < 0x40000);
    let r = sm.apply(Fixed::from_bits(c)).to_bits();
    let n = maps.len();
    if n == 0 {
        assert!(r == c);
        return;
    }
    let from = |i: usize| maps[i].from_coordinate().to_fixed().to_bits();
    let to = |i: usize| maps[i].to_coordinate().to_fixed().to_bits();
    if c < from(0) || c > from(n - 1) {
        assert!(r == c);
    }
    let mut i = 0;
    while i < n {
        if c == from(i) {
            assert!(r == to(i));
        }
        if i > 0 && c > from(i - 1) && c < from(i) {
            // result = prev_to + (to - prev_to).mul_div(coord - prev_from, from - prev_from)
            assert!(is_mul_div_of(
                0,
                r.wrapping_sub(to(i - 1)),
                to(i) - to(i - 1),
                c - from(i - 1),
                from(i) - from(i - 1)
            ));
            kani::cover!(true, "interior of a segment");
        }
        i += 1;
    }
}

// @bound SegmentMaps::apply on 14 ARBITRARY symbolic bytes and ANY 32-bit coord: no panic / overflow; unwind 5
// @c20
// @c01
#[cfg_attr(kani, kani::proof)]
#[cfg_attr(kani, kani::unwind(5))]
pub fn c11_segment_maps_apply_total() {
    let buf: [u8; 14] = kani::any();
    let len: usize = kani::any();
    kani::assume(len <= 14);
    let Ok(sm) = SegmentMaps::read(FontData::new(&buf[..len])) else { return };
    let _ = sm.apply(Fixed::from_bits(kani::any()));
    kani::cover!(sm.axis_value_maps().len() == 3, "three maps");
}

// @bound VariationRegion (1 axis, 6 symbolic bytes) scalar at any F2Dot14 coordinate vs the spec tent function (exact rounded quotient)
// @assume Fixed::mul_div is an uninterpreted function in this query (recording stub, see mul_div_spec)
// @timeout 900
#[cfg_attr(kani, kani::proof)]
#[cfg_attr(kani, kani::stub(font_types::Fixed::mul_div, mul_div_spec))]
#[cfg_attr(kani, kani::unwind(4))]
pub fn c11_region_scalar_matches_spec_1axis() {
    let buf: [u8; 6] = kani::any();
    let Ok(reg) = VariationRegion::read_with_args(FontData::new(&buf), &1u16) else { return };
    let ax = &reg.region_axes()[0];
    let (s, p, e) = (
        ax.start_coord().to_fixed().to_bits() as i64,
        ax.peak_coord().to_fixed().to_bits() as i64,
        ax.end_coord().to_fixed().to_bits() as i64,
    );
    let cbits: i16 = kani::any();
    let coords = [F2Dot14::from_bits(cbits)];
    let ncoords: usize = kani::any();
    kani::assume(ncoords <= 1);
    let c = if ncoords == 1 { (cbits as i64) * 4 } else { 0 };
    let r = reg.compute_scalar(&coords[..ncoords]).to_bits() as i64;
    if s > p || p > e || p == 0 || (s < 0 && e > 0) {
        assert!(r == 0x10000);
    } else if c < s || c > e {
        assert!(r == 0);
    } else if c == p {
        assert!(r == 0x10000);
    } else if c < p {
        assert!(is_mul_div_of(0, r as i32, 0x10000, (c - s) as i32, (p - s) as i32));
    } else {
        assert!(is_mul_div_of(0, r as i32, 0x10000, (e - c) as i32, (e - p) as i32));
    }
    kani::cover!(c > s && c < p, "rising edge");
    kani::cover!(c > p && c < e, "falling edge");
}

// @bound DeltaSetIndexMap (format 0/1, 16 symbolic bytes) get(any index) vs spec: entry = big-endian entrySize bytes at min(index, mapCount-1), outer = entry >> bits, inner = entry & mask
// @c20
// @c01
#[cfg_attr(kani, kani::proof)]
#[cfg_attr(kani, kani::unwind(6))]
pub fn c11_delta_set_index_map_matches_spec() {
    let buf: [u8; 16] = kani::any();
    let len: usize = kani::any();
    kani::assume(len <= 16);
    let Ok(m) = DeltaSetIndexMap::read(FontData::new(&buf[..len])) else { return };
    let (fmt, count, data) = match &m {
        DeltaSetIndexMap::Format0(f) => (f.entry_format(), f.map_count() as u32, f.map_data()),
        DeltaSetIndexMap::Format1(f) => (f.entry_format(), f.map_count(), f.map_data()),
    };
    let idx: u32 = kani::any();
    let got = m.get(idx);
    let size = (((fmt.bits() >> 4) & 3) + 1) as usize;
    let bits = ((fmt.bits() & 0xF) + 1) as u32;
    if count == 0 {
        return;
    }
    let i = idx.min(count - 1) as usize;
    if (i + 1) * size <= data.len() {
        let mut entry: u32 = 0;
        let mut k = 0;
        while k < size {
            entry = (entry << 8) | data[i * size + k] as u32;
            k += 1;
        }
        let d = got.expect("in-bounds entry");
        assert!(d.outer == (entry >> bits) as u16);
        assert!(d.inner == (entry & ((1u32 << bits) - 1)) as u16);
        kani::cover!(size == 3, "24-bit entries");
        kani::cover!(idx >= count, "clamped index");
    } else {
        assert!(got.is_err());
    }
}
