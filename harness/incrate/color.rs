//! C13 (callback balance): skrifa's COLR paint-graph traversal, driven through the public entry
//! points ColorGlyphCollection::get_with_format() + ColorGlyph::paint() with a recording
//! ColorPainter. Pulled into skrifa/src/color/mod.rs as `mod verif_harness` under
//! `--cfg googlefonts_fontations_verif`.
//!
//! @assume the COLR table is a 204-byte v1 table whose *structure* is concrete (one query per structure: the paint formats of ROOT / MID, the layer range of PaintColrLayers and the glyph PaintColrGlyph refers to are parameters of the query, enumerated over all 32 formats for ROOT) (header, a BaseGlyphList of 2 records, a LayerList of 2 layers, a ClipList of 1 clip whose glyph range is symbolic (so it may or may not apply), paint slots ROOT / MID / LEAF / LEAF2, one colour line of <= 2 stops, one affine matrix) and whose *contents* are symbolic: the root paint's format byte and all of its fields, glyph ids of base-glyph records and of the clip, clip box format and values, the layer range of PaintColrLayers, the glyph id of PaintColrGlyph, composite mode, leaf formats (PaintSolid / PaintVarSolid) and values
//! @assume child-paint offsets of wrapper paints are concrete (they point at the next slot), so the graph depth is bounded by the slot chain; cycles are reachable only through PaintColrGlyph (its glyph id is symbolic and base-glyph record 0 points back at ROOT), which is the edge the cycle guard protects
//! @assume location = default (no variation coordinates): PaintVar* formats are traversed with zero deltas
//! @assume the client's paint_cached_color_glyph returns a symbolic choice of Ok(Ok) / Ok(Unimplemented) / Err
#![allow(unused, clippy::all)]

#[cfg(not(kani))]
#[path = "/verif/harness/shim/shim.rs"]
mod kani;

use super::*;
use raw::{FontData, FontRead};

const BGL: usize = 34; // BaseGlyphList: u32 count + 2 * (u16 glyph, Offset32)
const LL: usize = 50; // LayerList: u32 count + 2 * Offset32
const CL: usize = 62; // ClipList: u8 format, u32 count, 1 * (u16, u16, Offset24)
const CB: usize = 74; // ClipBox (format 1: 9 bytes, format 2: 13 bytes)
const ROOT: usize = 87; // 24 bytes
const MID: usize = 111; // 24 bytes
const LEAF: usize = 135; // 9 bytes
const LEAF2: usize = 144; // 9 bytes
const LINE: usize = 153; // (Var)ColorLine: u8 extend, u16 count, 2 * 10 bytes
const AFF: usize = 176; // (Var)Affine2x3: 24 / 28 bytes
const N: usize = 204;

fn put16(b: &mut [u8; N], at: usize, v: u16) {
    b[at] = (v >> 8) as u8;
    b[at + 1] = v as u8;
}
fn put24(b: &mut [u8; N], at: usize, v: usize) {
    b[at] = (v >> 16) as u8;
    b[at + 1] = (v >> 8) as u8;
    b[at + 2] = v as u8;
}
fn put32(b: &mut [u8; N], at: usize, v: usize) {
    b[at] = (v >> 24) as u8;
    b[at + 1] = (v >> 16) as u8;
    b[at + 2] = (v >> 8) as u8;
    b[at + 3] = v as u8;
}

const G0: u16 = 5; // base glyph whose paint is ROOT
const G1: u16 = 9; // base glyph whose paint is LEAF

/// Give the paint at `at` the (concrete) format `f` and point its child offsets at `child` /
/// `child2`; every other byte of the paint stays symbolic.
fn link(b: &mut [u8; N], at: usize, f: u8, child: usize, child2: usize, p1: u32, p2: u32) {
    b[at] = f;
    if f == 1 {
        // PaintColrLayers: numLayers = p2, firstLayerIndex = p1
        b[at + 1] = p2 as u8;
        put32(b, at + 2, p1 as usize);
    } else if f == 11 {
        // PaintColrGlyph: glyph G0 (cycle back to ROOT), G1 (LEAF) or a glyph without a record
        put16(b, at + 1, if p1 == 0 { G0 } else if p1 == 1 { G1 } else { 7 });
    } else if (4..=9).contains(&f) {
        put24(b, at + 1, LINE - at);
    } else if f == 10 || (12..=32).contains(&f) {
        put24(b, at + 1, child - at);
    }
    if f == 12 || f == 13 {
        put24(b, at + 4, AFF - at);
    }
    if f == 32 {
        put24(b, at + 5, child2 - at);
    }
}

fn any_colr(root: u8, mid: u8, p1: u32, p2: u32) -> [u8; N] {
    let mut b: [u8; N] = kani::any();
    if mid != 0 {
        link(&mut b, ROOT, root, MID, LEAF2, p1, p2);
        link(&mut b, MID, mid, LEAF, LEAF2, p1, p2);
    } else {
        link(&mut b, ROOT, root, LEAF, LEAF2, p1, p2);
    }
    // leaves: PaintSolid (their remaining bytes are symbolic)
    b[LEAF] = 2;
    b[LEAF2] = 2;
    // colour line: 2 stops
    b[LINE + 1] = 0;
    b[LINE + 2] = 2;
    // header (version 1, no v0 records)
    put16(&mut b, 0, 1);
    put16(&mut b, 2, 0);
    put32(&mut b, 4, 0);
    put32(&mut b, 8, 0);
    put16(&mut b, 12, 0);
    put32(&mut b, 14, BGL);
    put32(&mut b, 18, LL);
    put32(&mut b, 22, CL);
    put32(&mut b, 26, 0);
    put32(&mut b, 30, 0);
    // base glyph list: G0 -> ROOT, G1 -> LEAF
    put32(&mut b, BGL, 2);
    put16(&mut b, BGL + 4, G0);
    put32(&mut b, BGL + 6, ROOT - BGL);
    put16(&mut b, BGL + 10, G1);
    put32(&mut b, BGL + 12, LEAF - BGL);
    // layer list: [MID or LEAF, LEAF2]
    put32(&mut b, LL, 2);
    put32(&mut b, LL + 4, LEAF - LL);
    put32(&mut b, LL + 8, LEAF2 - LL);
    // clip list: one clip with symbolic glyph range (so it may or may not apply), box at CB
    // (format 1 or 2 or invalid: symbolic)
    b[CL] = 1;
    put32(&mut b, CL + 1, 1);
    put24(&mut b, CL + 9, CB - CL);
    b
}

const K_TRANSFORM: u8 = 1;
const K_CLIP: u8 = 2;
const K_LAYER: u8 = 16; // + composite mode

struct BalancePainter {
    stack: [u8; 12],
    depth: usize,
    underflow: bool,
    mismatch: bool,
    overflow: bool,
    cached: u8,
    calls: u32,
}

impl BalancePainter {
    fn new() -> Self {
        let cached: u8 = kani::any();
        kani::assume(cached < 3);
        Self { stack: [0; 12], depth: 0, underflow: false, mismatch: false, overflow: false, cached, calls: 0 }
    }
    fn push(&mut self, k: u8) {
        self.calls += 1;
        if self.depth < 12 {
            self.stack[self.depth] = k;
            self.depth += 1;
        } else {
            self.overflow = true;
        }
    }
    fn pop(&mut self, k: u8) {
        self.calls += 1;
        if self.depth == 0 {
            self.underflow = true;
        } else {
            self.depth -= 1;
            if self.stack[self.depth] != k {
                self.mismatch = true;
            }
        }
    }
}

impl ColorPainter for BalancePainter {
    fn push_transform(&mut self, _: Transform) {
        self.push(K_TRANSFORM)
    }
    fn pop_transform(&mut self) {
        self.pop(K_TRANSFORM)
    }
    fn push_clip_glyph(&mut self, _: GlyphId) {
        self.push(K_CLIP)
    }
    fn push_clip_box(&mut self, _: BoundingBox<f32>) {
        self.push(K_CLIP)
    }
    fn pop_clip(&mut self) {
        self.pop(K_CLIP)
    }
    fn fill(&mut self, _: Brush<'_>) {
        self.calls += 1;
    }
    // fill_glyph: the trait's default implementation (push_clip_glyph / fill / pop_clip)
    fn paint_cached_color_glyph(&mut self, _: GlyphId) -> Result<PaintCachedColorGlyph, PaintError> {
        match self.cached {
            0 => Ok(PaintCachedColorGlyph::Ok),
            1 => Ok(PaintCachedColorGlyph::Unimplemented),
            _ => Err(PaintError::DepthLimitExceeded),
        }
    }
    fn push_layer(&mut self, mode: CompositeMode) {
        self.push(K_LAYER + mode as u8)
    }
    fn pop_layer_with_mode(&mut self, mode: CompositeMode) {
        self.pop(K_LAYER + mode as u8)
    }
}

fn paint_and_check(root: u8, mid: u8, p1: u32, p2: u32) {
    let b = any_colr(root, mid, p1, p2);
    let Ok(colr) = colr::Colr::read(FontData::new(&b)) else {
        return;
    };
    let collection = ColorGlyphCollection { colr: Some(colr), upem: Ok(1000) };
    // the glyph whose graph starts at ROOT
    let Some(glyph) = collection.get_with_format(GlyphId::new(G0 as u32), ColorGlyphFormat::ColrV1) else {
        return;
    };
    let mut painter = BalancePainter::new();
    let r = glyph.paint(LocationRef::default(), &mut painter);
    if r.is_ok() {
        assert!(!painter.underflow, "a callback popped what was not pushed");
        assert!(!painter.mismatch, "pops are not in last-in-first-out order");
        assert!(painter.depth == 0, "a pushed transform, clip or layer was never popped");
    }
    assert!(!painter.overflow);
    kani::cover!(r.is_ok(), "paint can succeed");
}

macro_rules! paint_harness {
    ($name:ident, $root:expr, $mid:expr, $p1:expr, $p2:expr) => {
        #[cfg_attr(kani, kani::proof)]
        #[cfg_attr(kani, kani::unwind(8))]
        pub fn $name() {
            paint_and_check($root, $mid, $p1, $p2)
        }
    };
}

// @cbmc --max-field-sensitivity-array-size 256
// @bound test; kani::unwind(8)
paint_harness!(c13_paint_fmt32, 32, 0, 0, 0);
// @cbmc --max-field-sensitivity-array-size 256
// @bound test; kani::unwind(8)
paint_harness!(c13_paint_fmt11_leaf, 11, 0, 1, 0);
// @cbmc --max-field-sensitivity-array-size 256
// @bound test; kani::unwind(8)
paint_harness!(c13_paint_fmt10_11, 10, 11, 1, 0);

#[cfg(all(test, not(kani)))]
include!("color_dispatch.rs");

#[cfg(all(test, not(kani)))]
#[test]
fn verif_replay() {
    let Ok(path) = std::env::var("VERIF_REPLAY_FILE") else {
        return;
    };
    let (name, vals) = kani::read_replay_file(&path);
    if let Some(f) = verif_dispatch(&name) {
        kani::load(vals);
        f();
        println!("VERIF-REPLAY-COMPLETED");
    }
}
