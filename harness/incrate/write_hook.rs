//! C04 / C10 (writer half): serialise offset-free write-fonts values with the real `write_into`
//! and read them back with read-fonts. Pulled into write-fonts/src/write.rs as `mod verif_harness`.
//!
//! @assume `verif_write_bytes` = TableWriter::default(); t.write_into(); into_data().bytes — the same write_into/TableData that dump_table uses for the root object, WITHOUT the packing graph (BTreeMap/BinaryHeap, out of CBMC's reach): values holding a non-null offset cannot be serialised this way and are outside the claim
//! @assume std::hash::RandomState::new is stubbed (fixed keys): TableWriter owns a HashMap that is constructed but never used on this path; the real seeding reaches getrandom, which Kani does not support
//! @bound all scalar fields symbolic; arrays of <= 2 elements
#![allow(unused, clippy::all)]

#[cfg(not(kani))]
#[path = "/verif/harness/shim/shim.rs"]
mod kani;

use super::*;
use crate::validate::Validate;
use crate::from_obj::ToOwnedTable;
use font_types::*;
use read_fonts::{FontData, FontRead, FontReadWithArgs};

pub(crate) fn verif_write_bytes<T: FontWrite>(t: &T) -> Vec<u8> {
    let mut w = TableWriter::default();
    t.write_into(&mut w);
    w.into_data().bytes
}

#[cfg(kani)]
fn verif_random_state() -> std::hash::RandomState {
    // two u64 keys
    unsafe { core::mem::transmute([0u64; 2]) }
}

fn opt16(present: bool) -> Option<u16> {
    if present { Some(kani::any()) } else { None }
}

// @bound Maxp version 0.5 and 1.0 (all 13 optional fields present or all absent, plus mixed presence which validation must reject or the writer must handle)
// @timeout 900
#[cfg_attr(kani, kani::proof)]
#[cfg_attr(kani, kani::stub(std::hash::RandomState::new, verif_random_state))]
#[cfg_attr(kani, kani::unwind(40))]
pub fn c04_maxp_roundtrip() {
    use crate::tables::maxp::Maxp;
    let v1: bool = kani::any();
    let t = Maxp {
        num_glyphs: kani::any(),
        max_points: opt16(v1),
        max_contours: opt16(v1),
        max_composite_points: opt16(v1),
        max_composite_contours: opt16(v1),
        max_zones: opt16(v1),
        max_twilight_points: opt16(v1),
        max_storage: opt16(v1),
        max_function_defs: opt16(v1),
        max_instruction_defs: opt16(v1),
        max_stack_elements: opt16(v1),
        max_size_of_instructions: opt16(v1),
        max_component_elements: opt16(v1),
        max_component_depth: opt16(v1),
    };
    if t.validate().is_err() {
        return;
    }
    let bytes = verif_write_bytes(&t);
    assert!(bytes.len() == if v1 { 32 } else { 6 });
    let r = read_fonts::tables::maxp::Maxp::read(FontData::new(&bytes)).expect("written table reads back");
    assert!(r.num_glyphs() == t.num_glyphs);
    assert!(r.version() == if v1 { Version16Dot16::VERSION_1_0 } else { Version16Dot16::VERSION_0_5 });
    assert!(r.max_points() == t.max_points && r.max_contours() == t.max_contours);
    assert!(r.max_composite_points() == t.max_composite_points && r.max_composite_contours() == t.max_composite_contours);
    assert!(r.max_zones() == t.max_zones && r.max_twilight_points() == t.max_twilight_points);
    assert!(r.max_storage() == t.max_storage && r.max_function_defs() == t.max_function_defs);
    assert!(r.max_instruction_defs() == t.max_instruction_defs && r.max_stack_elements() == t.max_stack_elements);
    assert!(r.max_size_of_instructions() == t.max_size_of_instructions);
    assert!(r.max_component_elements() == t.max_component_elements && r.max_component_depth() == t.max_component_depth);
    let back: Maxp = r.to_owned_table();
    assert!(back == t);
    let bytes2 = verif_write_bytes(&back);
    assert!(bytes2.len() == bytes.len());
    let k: usize = kani::any();
    kani::assume(k < bytes.len());
    assert!(bytes2[k] == bytes[k]);
    core::mem::forget(bytes);
    core::mem::forget(bytes2);
    kani::cover!(v1, "version 1.0");
    kani::cover!(!v1, "version 0.5");
}

// @timeout 900
#[cfg_attr(kani, kani::proof)]
#[cfg_attr(kani, kani::stub(std::hash::RandomState::new, verif_random_state))]
#[cfg_attr(kani, kani::unwind(40))]
pub fn c04_hhea_roundtrip() {
    use crate::tables::hhea::Hhea;
    let t = Hhea {
        ascender: FWord::new(kani::any()),
        descender: FWord::new(kani::any()),
        line_gap: FWord::new(kani::any()),
        advance_width_max: UfWord::new(kani::any()),
        min_left_side_bearing: FWord::new(kani::any()),
        min_right_side_bearing: FWord::new(kani::any()),
        x_max_extent: FWord::new(kani::any()),
        caret_slope_rise: kani::any(),
        caret_slope_run: kani::any(),
        caret_offset: kani::any(),
        number_of_h_metrics: kani::any(),
    };
    if t.validate().is_err() {
        return;
    }
    let bytes = verif_write_bytes(&t);
    assert!(bytes.len() == 36);
    let r = read_fonts::tables::hhea::Hhea::read(FontData::new(&bytes)).expect("reads back");
    assert!(r.ascender() == t.ascender && r.descender() == t.descender && r.line_gap() == t.line_gap);
    assert!(r.advance_width_max() == t.advance_width_max);
    assert!(r.min_left_side_bearing() == t.min_left_side_bearing && r.min_right_side_bearing() == t.min_right_side_bearing);
    assert!(r.x_max_extent() == t.x_max_extent && r.caret_slope_rise() == t.caret_slope_rise);
    assert!(r.caret_slope_run() == t.caret_slope_run && r.caret_offset() == t.caret_offset);
    assert!(r.number_of_h_metrics() == t.number_of_h_metrics);
    assert!(r.version() == MajorMinor::VERSION_1_0);
    let back: Hhea = r.to_owned_table();
    assert!(back == t);
    core::mem::forget(bytes);
    kani::cover!(true, "reached");
}

// @bound Os2 versions 0, 1, 4, 5 (field presence as compute_version implies), all scalar fields symbolic
// @timeout 1500
#[cfg_attr(kani, kani::proof)]
#[cfg_attr(kani, kani::stub(std::hash::RandomState::new, verif_random_state))]
#[cfg_attr(kani, kani::unwind(110))]
pub fn c04_os2_roundtrip() {
    use crate::tables::os2::{Os2, SelectionFlags};
    let ver: u8 = kani::any();
    kani::assume(ver == 0 || ver == 1 || ver == 4 || ver == 5);
    let t = Os2 {
        x_avg_char_width: kani::any(),
        us_weight_class: kani::any(),
        us_width_class: kani::any(),
        fs_type: kani::any(),
        y_subscript_x_size: kani::any(),
        y_subscript_y_size: kani::any(),
        y_subscript_x_offset: kani::any(),
        y_subscript_y_offset: kani::any(),
        y_superscript_x_size: kani::any(),
        y_superscript_y_size: kani::any(),
        y_superscript_x_offset: kani::any(),
        y_superscript_y_offset: kani::any(),
        y_strikeout_size: kani::any(),
        y_strikeout_position: kani::any(),
        s_family_class: kani::any(),
        panose_10: kani::any(),
        ul_unicode_range_1: kani::any(),
        ul_unicode_range_2: kani::any(),
        ul_unicode_range_3: kani::any(),
        ul_unicode_range_4: kani::any(),
        ach_vend_id: Tag::from_be_bytes(kani::any()),
        fs_selection: SelectionFlags::from_bits_truncate(kani::any()),
        us_first_char_index: kani::any(),
        us_last_char_index: kani::any(),
        s_typo_ascender: kani::any(),
        s_typo_descender: kani::any(),
        s_typo_line_gap: kani::any(),
        us_win_ascent: kani::any(),
        us_win_descent: kani::any(),
        ul_code_page_range_1: if ver >= 1 { Some(kani::any()) } else { None },
        ul_code_page_range_2: if ver >= 1 { Some(kani::any()) } else { None },
        sx_height: if ver >= 4 { Some(kani::any()) } else { None },
        s_cap_height: if ver >= 4 { Some(kani::any()) } else { None },
        us_default_char: if ver >= 4 { Some(kani::any()) } else { None },
        us_break_char: if ver >= 4 { Some(kani::any()) } else { None },
        us_max_context: if ver >= 4 { Some(kani::any()) } else { None },
        us_lower_optical_point_size: if ver >= 5 { Some(kani::any()) } else { None },
        us_upper_optical_point_size: if ver >= 5 { Some(kani::any()) } else { None },
    };
    if t.validate().is_err() {
        return;
    }
    let bytes = verif_write_bytes(&t);
    let expect_len = match ver { 0 => 78, 1 => 86, 4 => 96, _ => 100 };
    assert!(bytes.len() == expect_len);
    let r = read_fonts::tables::os2::Os2::read(FontData::new(&bytes)).expect("reads back");
    assert!(r.version() == ver as u16);
    assert!(r.x_avg_char_width() == t.x_avg_char_width && r.us_weight_class() == t.us_weight_class);
    assert!(r.us_win_descent() == t.us_win_descent && r.ach_vend_id() == t.ach_vend_id);
    assert!(r.ul_code_page_range_1() == t.ul_code_page_range_1 && r.ul_code_page_range_2() == t.ul_code_page_range_2);
    assert!(r.sx_height() == t.sx_height && r.us_max_context() == t.us_max_context);
    assert!(r.us_lower_optical_point_size() == t.us_lower_optical_point_size);
    assert!(r.us_upper_optical_point_size() == t.us_upper_optical_point_size);
    assert!(r.panose_10()[9] == t.panose_10[9] && r.panose_10()[0] == t.panose_10[0]);
    let back: Os2 = r.to_owned_table();
    assert!(back == t);
    core::mem::forget(bytes);
    kani::cover!(ver == 5, "version 5");
    kani::cover!(ver == 0, "version 0");
}

// @bound PackedDeltas of <= 4 symbolic i32 values: the reader's consume_all().iter() returns exactly the values written (8/16/32-bit and zero runs); unwind 8
// @timeout 1500
#[cfg_attr(kani, kani::proof)]
#[cfg_attr(kani, kani::stub(std::hash::RandomState::new, verif_random_state))]
#[cfg_attr(kani, kani::unwind(8))]
pub fn c10_packed_deltas_write_read() {
    use crate::tables::variations::PackedDeltas;
    let vals: [i32; 4] = kani::any();
    let n: usize = kani::any();
    kani::assume(n >= 1 && n <= 4);
    let mut v = Vec::with_capacity(4);
    let mut i = 0;
    while i < 4 {
        if i < n {
            v.push(vals[i]);
        }
        i += 1;
    }
    let t = PackedDeltas::new(v);
    let bytes = verif_write_bytes(&t);
    let rd = read_fonts::tables::variations::PackedDeltas::consume_all(FontData::new(&bytes));
    let mut it = rd.iter();
    let mut i = 0;
    while i < 4 {
        if i < n {
            assert!(it.next() == Some(vals[i]));
        }
        i += 1;
    }
    assert!(it.next().is_none());
    core::mem::forget(bytes);
    core::mem::forget(t);
    kani::cover!(n == 4 && vals[0] == 0 && vals[1] > 40000, "zero run then long");
}

// @tier thorough
// @timeout 1500
// @mem 24
#[cfg_attr(kani, kani::proof)]
#[cfg_attr(kani, kani::stub(std::hash::RandomState::new, verif_random_state))]
#[cfg_attr(kani, kani::unwind(40))]
pub fn c04_hhea_write_read_minimal() {
    use crate::tables::hhea::Hhea;
    let t = Hhea {
        ascender: FWord::new(kani::any()),
        descender: FWord::new(kani::any()),
        line_gap: FWord::new(kani::any()),
        advance_width_max: UfWord::new(kani::any()),
        min_left_side_bearing: FWord::new(kani::any()),
        min_right_side_bearing: FWord::new(kani::any()),
        x_max_extent: FWord::new(kani::any()),
        caret_slope_rise: kani::any(),
        caret_slope_run: kani::any(),
        caret_offset: kani::any(),
        number_of_h_metrics: kani::any(),
    };
    let bytes = verif_write_bytes(&t);
    assert!(bytes.len() == 36);
    let r = read_fonts::tables::hhea::Hhea::read(FontData::new(&bytes)).expect("reads back");
    assert!(r.ascender() == t.ascender && r.descender() == t.descender && r.line_gap() == t.line_gap);
    assert!(r.number_of_h_metrics() == t.number_of_h_metrics && r.caret_offset() == t.caret_offset);
    core::mem::forget(bytes);
    kani::cover!(true, "reached");
}

#[cfg(all(test, not(kani)))]
include!("write_hook_dispatch.rs");

#[cfg(all(test, not(kani)))]
#[test]
fn verif_replay() {
    let Ok(path) = std::env::var("VERIF_REPLAY_FILE") else {
        return;
    };
    let (name, vals) = kani::read_replay_file(&path);
    if let Some(f) = verif_dispatch(&name) {
        kani::load(vals);
        f();
        println!("VERIF-REPLAY-COMPLETED");
    }
}
