//! (no harnesses) — C04 / the writer half of C10 were attempted here and withdrawn.
//!
//! The plan was to serialise offset-free write-fonts tables with the real `write_into` through
//! `TableWriter::default(); t.write_into(); into_data().bytes` (no packing graph), with
//! `std::hash::RandomState::new` stubbed, and to read the bytes back with read-fonts. Measured in
//! this sandbox (Kani 0.68 / CBMC 6.11): the *smallest* such query — `Hhea` (36 bytes, eleven
//! scalar fields), write -> read -> compare five getters, nothing else — exhausts 25 GB under
//! `ulimit -v` and was OOM-killed at 58 GB without the limit (symbolic contents flowing through
//! `Vec<u8>` growth in `TableData::write_bytes`). C04 is therefore listed as not applicable in
//! MANIFEST.json rather than claimed at a bound that cannot be run.
#![allow(unused)]
