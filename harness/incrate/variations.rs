//! C10 / C01 (read side kernels): the dense / sparse delta readers behind
//! TupleVariation::accumulate_{dense,sparse}_deltas (what skrifa runs for every gvar tuple).
//! Pulled into read-fonts/src/tables/variations.rs as `mod verif_harness`.
//!
//! @bound sizes per harness
#![allow(unused, clippy::all)]

#[cfg(not(kani))]
#[path = "/verif/harness/shim/shim.rs"]
mod kani;

use super::*;

/// spec decoder: the i-th packed delta, or None if the data ends first
fn spec_delta(b: &[u8], want: usize) -> Option<i32> {
    let mut pos = 0usize;
    let mut seen = 0usize;
    while pos < b.len() {
        let control = b[pos];
        pos += 1;
        let run = (control & 0x3F) as usize + 1;
        let size = match (control & 0x80 != 0, control & 0x40 != 0) {
            (true, false) => 0,
            (false, false) => 1,
            (false, true) => 2,
            (true, true) => 4,
        };
        if want < seen + run {
            let at = pos + (want - seen) * size;
            if at + size > b.len() {
                return None;
            }
            return Some(match size {
                0 => 0,
                1 => b[at] as i8 as i32,
                2 => (((b[at] as u16) << 8) | b[at + 1] as u16) as i16 as i32,
                _ => i32::from_be_bytes([b[at], b[at + 1], b[at + 2], b[at + 3]]),
            });
        }
        seen += run;
        pos += run * size;
    }
    None
}

// @bound 3 symbolic bytes (symbolic length), destination of <= 2 deltas: never panics (a run longer than the destination, a truncated run and an empty buffer are errors); unwind 5
// @c01
// @c20
// @timeout 420
// @playback-first
#[cfg_attr(kani, kani::proof)]
#[cfg_attr(kani, kani::unwind(5))]
pub fn c10_read_dense_deltas_total() {
    let buf: [u8; 3] = kani::any();
    let len: usize = kani::any();
    kani::assume(len <= 3);
    let n: usize = kani::any();
    kani::assume(n <= 2);
    let mut dest = [0i32; 2];
    let mut cursor = FontData::new(&buf[..len]).cursor();
    let r = read_dense_deltas(&mut cursor, &mut dest[..n], |d, v| *d = v);
    kani::cover!(r.is_ok() && n == 2, "two deltas read");
    kani::cover!(r.is_err() && len > 1, "rejected");
}

// @bound 6 symbolic bytes, destination of exactly 2 deltas: the values stored equal the spec decoding; unwind 8
// @tier thorough
// @timeout 3000
// @mem 24
#[cfg_attr(kani, kani::proof)]
#[cfg_attr(kani, kani::unwind(8))]
pub fn c10_read_dense_deltas_match_spec() {
    let buf: [u8; 6] = kani::any();
    let mut dest = [0i32; 2];
    let mut cursor = FontData::new(&buf).cursor();
    let r = read_dense_deltas(&mut cursor, &mut dest, |d, v| *d = v);
    if r.is_ok() {
        let k: usize = kani::any();
        kani::assume(k < 2);
        assert!(Some(dest[k]) == spec_delta(&buf, k));
    }
    kani::cover!(r.is_ok(), "decoded");
}

// @bound 4 symbolic bytes of deltas, 3 symbolic bytes of packed point numbers, count <= 2: never panics; unwind 6
// @c01 thorough
// @c20 thorough
// @tier thorough
// @timeout 3000
// @mem 24
#[cfg_attr(kani, kani::proof)]
#[cfg_attr(kani, kani::unwind(6))]
pub fn c10_read_sparse_deltas_total() {
    let buf: [u8; 4] = kani::any();
    let len: usize = kani::any();
    kani::assume(len <= 4);
    let pts: [u8; 3] = kani::any();
    let count: usize = kani::any();
    kani::assume(count <= 2);
    let (point_numbers, _rest) = PackedPointNumbers::split_off_front(FontData::new(&pts));
    let mut cursor = FontData::new(&buf[..len]).cursor();
    let mut calls = 0usize;
    let r = read_sparse_deltas(&mut cursor, &point_numbers, count, |_ix, _v| {
        calls += 1;
    });
    kani::cover!(r.is_ok() && calls == 2, "two sparse deltas applied");
}

#[cfg(all(test, not(kani)))]
include!("variations_dispatch.rs");

#[cfg(all(test, not(kani)))]
#[test]
fn verif_replay() {
    let Ok(path) = std::env::var("VERIF_REPLAY_FILE") else {
        return;
    };
    let (name, vals) = kani::read_replay_file(&path);
    if let Some(f) = verif_dispatch(&name) {
        kani::load(vals);
        f();
        println!("VERIF-REPLAY-COMPLETED");
    }
}
