//! C10 / C01 (read side kernels): the dense / sparse delta readers behind
//! TupleVariation::accumulate_{dense,sparse}_deltas (what skrifa runs for every gvar tuple).
//! Pulled into read-fonts/src/tables/variations.rs as `mod verif_harness`.
//!
//! @bound <= 8 symbolic bytes of packed deltas (symbolic length), a destination of <= 3 points (symbolic count); unwind 10
#![allow(unused, clippy::all)]

#[cfg(not(kani))]
#[path = "/verif/harness/shim/shim.rs"]
mod kani;

use super::*;

/// spec decoder: the i-th packed delta, or None if the data ends first
fn spec_delta(b: &[u8], want: usize) -> Option<i32> {
    let mut pos = 0usize;
    let mut seen = 0usize;
    while pos < b.len() {
        let control = b[pos];
        pos += 1;
        let run = (control & 0x3F) as usize + 1;
        let size = match (control & 0x80 != 0, control & 0x40 != 0) {
            (true, false) => 0,
            (false, false) => 1,
            (false, true) => 2,
            (true, true) => 4,
        };
        if want < seen + run {
            let at = pos + (want - seen) * size;
            if at + size > b.len() {
                return None;
            }
            return Some(match size {
                0 => 0,
                1 => b[at] as i8 as i32,
                2 => (((b[at] as u16) << 8) | b[at + 1] as u16) as i16 as i32,
                _ => i32::from_be_bytes([b[at], b[at + 1], b[at + 2], b[at + 3]]),
            });
        }
        seen += run;
        pos += run * size;
    }
    None
}

// @c01
// @c20
// @timeout 600
#[cfg_attr(kani, kani::proof)]
#[cfg_attr(kani, kani::unwind(10))]
pub fn c10_read_dense_deltas_total_and_matches_spec() {
    let buf: [u8; 8] = kani::any();
    let len: usize = kani::any();
    kani::assume(len <= 8);
    let n: usize = kani::any();
    kani::assume(n <= 3);
    let mut dest = [0i32; 3];
    let mut cursor = FontData::new(&buf[..len]).cursor();
    // a run that is longer than the destination, a truncated run, an empty buffer: Err, never a panic
    let r = read_dense_deltas(&mut cursor, &mut dest[..n], |d, v| *d = v);
    if r.is_ok() {
        let k: usize = kani::any();
        kani::assume(k < n);
        assert!(Some(dest[k]) == spec_delta(&buf[..len], k));
        kani::cover!(n == 3 && buf[0] & 0xC0 == 0x40, "three word deltas");
    }
    kani::cover!(r.is_err() && len > 2, "rejected");
}

// @c01
// @c20
// @timeout 600
#[cfg_attr(kani, kani::proof)]
#[cfg_attr(kani, kani::unwind(10))]
pub fn c10_read_sparse_deltas_total() {
    let buf: [u8; 8] = kani::any();
    let len: usize = kani::any();
    kani::assume(len <= 8);
    let pts: [u8; 4] = kani::any();
    let plen: usize = kani::any();
    kani::assume(plen <= 4);
    let count: usize = kani::any();
    kani::assume(count <= 3);
    let (point_numbers, _rest) = PackedPointNumbers::split_off_front(FontData::new(&pts[..plen]));
    let mut cursor = FontData::new(&buf[..len]).cursor();
    let mut dest = [0i32; 3];
    let mut calls = 0usize;
    let r = read_sparse_deltas(&mut cursor, &point_numbers, count, |ix, v| {
        if ix < 3 {
            dest[ix] = v;
        }
        calls += 1;
    });
    kani::cover!(r.is_ok() && calls == 3, "three sparse deltas applied");
}

#[cfg(all(test, not(kani)))]
include!("variations_dispatch.rs");

#[cfg(all(test, not(kani)))]
#[test]
fn verif_replay() {
    let Ok(path) = std::env::var("VERIF_REPLAY_FILE") else {
        return;
    };
    let (name, vals) = kani::read_replay_file(&path);
    if let Some(f) = verif_dispatch(&name) {
        kani::load(vals);
        f();
        println!("VERIF-REPLAY-COMPLETED");
    }
}
