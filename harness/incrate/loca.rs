//! C09 (writer-side kernel): the short/long `loca` format decision.
//! Pulled into write-fonts/src/tables/loca.rs as `mod verif_harness`.
#![allow(unused, clippy::all)]

#[cfg(not(kani))]
#[path = "/verif/harness/shim/shim.rs"]
mod kani;

use super::*;

// @bound <= 4 symbolic ascending offsets: Short is chosen iff every offset is even and the last (largest) is < 0x20000, i.e. iff offset/2 fits the u16 entries of the short format
#[cfg_attr(kani, kani::proof)]
#[cfg_attr(kani, kani::unwind(6))]
pub fn c09_loca_format_choice() {
    let offs: [u32; 4] = kani::any();
    let n: usize = kani::any();
    kani::assume(n >= 1 && n <= 4);
    let mut i = 1;
    while i < 4 {
        kani::assume(offs[i - 1] <= offs[i]);
        i += 1;
    }
    let f = LocaFormat::new(&offs[..n]);
    let mut all_fit = true;
    let mut i = 0;
    while i < 4 {
        if i < n && (offs[i] % 2 != 0 || offs[i] / 2 > 0xFFFF) {
            all_fit = false;
        }
        i += 1;
    }
    assert!((f == LocaFormat::Short) == all_fit);
    kani::cover!(n == 4 && offs[3] == 0x1FFFE, "largest short offset");
}

#[cfg(all(test, not(kani)))]
include!("loca_dispatch.rs");

#[cfg(all(test, not(kani)))]
#[test]
fn verif_replay() {
    let Ok(path) = std::env::var("VERIF_REPLAY_FILE") else {
        return;
    };
    let (name, vals) = kani::read_replay_file(&path);
    if let Some(f) = verif_dispatch(&name) {
        kani::load(vals);
        f();
        println!("VERIF-REPLAY-COMPLETED");
    }
}
