//! C08 (writer half): the format-4 builder kernel against the OpenType spec's lookup algorithm.
//! Pulled into write-fonts/src/tables/cmap.rs as `mod verif_harness`.
//!
//! @assume Cmap::from_mappings' own sort/dedup/conflict scan (Vec sort with symbolic order) is not encoded; create_format_4 is called directly on an already sorted, duplicate-free slice, which is what from_mappings passes it
//! @assume format 12 (HashMap keyed by code points) is not encoded
#![allow(unused, clippy::all)]

#[cfg(not(kani))]
#[path = "/verif/harness/shim/shim.rs"]
mod kani;

use super::*;

/// spec format-4 lookup over the *written* arrays; 0 = missing glyph
fn spec_lookup(t: &Cmap4, c: u16) -> u16 {
    let seg = t.end_code.len();
    let mut i = 0;
    while i < seg {
        if t.end_code[i] >= c {
            if t.start_code[i] > c {
                return 0;
            }
            let r = t.id_range_offsets[i] as usize;
            if r == 0 {
                return (c as i32 + t.id_delta[i] as i32) as u16;
            }
            let idx = r / 2 + (c - t.start_code[i]) as usize - (seg - i);
            let g = t.glyph_id_array[idx];
            return if g == 0 { 0 } else { (g as i32 + t.id_delta[i] as i32) as u16 };
        }
        i += 1;
    }
    0
}

fn check(pairs: &[(char, GlyphId)]) {
    let Some(CmapSubtable::Format4(t)) = CmapSubtable::create_format_4(pairs) else {
        assert!(false);
        return;
    };
    let seg = t.end_code.len();
    assert!(t.start_code.len() == seg && t.id_delta.len() == seg && t.id_range_offsets.len() == seg);
    // final segment as the spec requires
    assert!(t.end_code[seg - 1] == 0xFFFF && t.start_code[seg - 1] == 0xFFFF);
    let mut i = 1;
    while i < seg {
        assert!(t.end_code[i - 1] < t.start_code[i] || i == seg - 1 && t.end_code[i - 1] <= t.start_code[i]);
        i += 1;
    }
    // every BMP code point answers exactly the mapping that was given
    let c: u16 = kani::any();
    let got = spec_lookup(&t, c);
    let mut exp = 0u16;
    let mut i = 0;
    while i < pairs.len() {
        if pairs[i].0 as u32 == c as u32 {
            exp = pairs[i].1.to_u32() as u16;
        }
        i += 1;
    }
    if c != 0xFFFF {
        assert!(got == exp);
    }
    core::mem::forget(t);
}

fn bmp_char(v: u16) -> char {
    // keep clear of surrogates and of the 0xFFFF sentinel the property excepts
    kani::assume(v < 0xD800 || (v > 0xDFFF && v != 0xFFFF));
    char::from_u32(v as u32).unwrap()
}

// @bound ONE mapping (any BMP char, any non-zero 16-bit glyph id): builder succeeds and the spec lookup over the produced arrays answers exactly that mapping for every BMP code point
// @timeout 2400
// @mem 30
// @tier thorough
#[cfg_attr(kani, kani::proof)]
#[cfg_attr(kani, kani::unwind(6))]
pub fn c08_format4_builder_one_mapping() {
    let c: u16 = kani::any();
    let g: u16 = kani::any();
    kani::assume(g != 0);
    let pairs = [(bmp_char(c), GlyphId::new(g as u32))];
    check(&pairs);
    kani::cover!(g as i32 - c as i32 >= 32768, "delta needs modulo-65536 arithmetic");
}

// @bound TWO mappings (ascending distinct BMP chars, any non-zero 16-bit glyph ids)
// @timeout 3000
// @mem 30
// @tier thorough
#[cfg_attr(kani, kani::proof)]
#[cfg_attr(kani, kani::unwind(7))]
pub fn c08_format4_builder_two_mappings() {
    let c: [u16; 2] = kani::any();
    let g: [u16; 2] = kani::any();
    kani::assume(c[0] < c[1] && g[0] != 0 && g[1] != 0);
    let pairs = [(bmp_char(c[0]), GlyphId::new(g[0] as u32)), (bmp_char(c[1]), GlyphId::new(g[1] as u32))];
    check(&pairs);
    kani::cover!(c[1] == c[0] + 1 && g[1] != g[0].wrapping_add(1), "adjacent chars, non-consecutive gids");
}

// @bound FOUR mappings in the shape {a, a+1, b, b+1} with b >= a+3 and non-consecutive glyph ids inside each run (two glyphIdArray segments — the only shape in which idRangeOffset of a later segment depends on the ids already written)
// @timeout 3000
// @mem 30
// @tier thorough
#[cfg_attr(kani, kani::proof)]
#[cfg_attr(kani, kani::unwind(9))]
pub fn c08_format4_builder_two_glyph_array_segments() {
    let a: u16 = kani::any();
    let b: u16 = kani::any();
    kani::assume(a < 0xD000 && b < 0xD000 && b >= a + 3);
    let g: [u16; 4] = kani::any();
    kani::assume(g[0] != 0 && g[1] != 0 && g[2] != 0 && g[3] != 0);
    kani::assume(g[1] != g[0].wrapping_add(1) && g[3] != g[2].wrapping_add(1));
    let pairs = [
        (bmp_char(a), GlyphId::new(g[0] as u32)),
        (bmp_char(a + 1), GlyphId::new(g[1] as u32)),
        (bmp_char(b), GlyphId::new(g[2] as u32)),
        (bmp_char(b + 1), GlyphId::new(g[3] as u32)),
    ];
    check(&pairs);
    kani::cover!(true, "reached");
}

#[cfg(all(test, not(kani)))]
include!("cmap_dispatch.rs");

#[cfg(all(test, not(kani)))]
#[test]
fn verif_replay() {
    let Ok(path) = std::env::var("VERIF_REPLAY_FILE") else {
        return;
    };
    let (name, vals) = kani::read_replay_file(&path);
    if let Some(f) = verif_dispatch(&name) {
        kani::load(vals);
        f();
        println!("VERIF-REPLAY-COMPLETED");
    }
}
