//! C06 (writer-side kernels): padding arithmetic of FontBuilder.
//! Pulled into write-fonts/src/font_builder.rs as `mod verif_harness`.
//! @assume table lengths are < 2^32 (a Vec<u8> of a real table); `sz + 3` overflows only for lengths within 3 of usize::MAX
#![allow(unused, clippy::all)]

#[cfg(not(kani))]
#[path = "/verif/harness/shim/shim.rs"]
mod kani;

use super::*;

#[cfg_attr(kani, kani::proof)]
pub fn c06_round4_padding() {
    let n: usize = kani::any();
    kani::assume(n <= u32::MAX as usize);
    let r = round4(n);
    assert!(r >= n && r - n < 4 && r % 4 == 0);
    kani::cover!(n % 4 == 1, "three bytes of padding");
}

// @bound checksum_and_padding on every byte string of length <= 9
#[cfg_attr(kani, kani::proof)]
#[cfg_attr(kani, kani::unwind(12))]
pub fn c06_checksum_and_padding() {
    let buf: [u8; 9] = kani::any();
    let len: usize = kani::any();
    kani::assume(len <= 9);
    let (sum, pad) = checksum_and_padding(&buf[..len]);
    assert!(pad < 4 && (len as u32 + pad) % 4 == 0);
    assert!(sum == read_fonts::tables::compute_checksum(&buf[..len]));
    // zero padding does not change the checksum (what the directory entry relies on)
    let mut padded = [0u8; 12];
    let mut i = 0;
    while i < 9 {
        if i < len {
            padded[i] = buf[i];
        }
        i += 1;
    }
    assert!(read_fonts::tables::compute_checksum(&padded[..len + pad as usize]) == sum);
    kani::cover!(pad == 3, "three bytes of padding");
}

#[cfg(all(test, not(kani)))]
include!("font_builder_dispatch.rs");

#[cfg(all(test, not(kani)))]
#[test]
fn verif_replay() {
    let Ok(path) = std::env::var("VERIF_REPLAY_FILE") else {
        return;
    };
    let (name, vals) = kani::read_replay_file(&path);
    if let Some(f) = verif_dispatch(&name) {
        kani::load(vals);
        f();
        println!("VERIF-REPLAY-COMPLETED");
    }
}
