//! C14 (set level): BitSet with a CONCRETE page layout and SYMBOLIC page contents, against the
//! mathematical set. Pulled into read-fonts/src/collections/int_set/bitset.rs as `mod verif_harness`.
//!
//! @assume page layout (which majors exist, how `pages` is ordered relative to the sorted `page_map`) is concrete per query: layouts used are majors {0,2} (a missing page in between, pages stored out of order) and majors {0,1} (adjacent pages); page contents: the last two words of the first page and the first two words of the second page are symbolic, the rest zero (full 512-bit symbolic pages exhausted 10 GB / 15 min). Inserting into a *new* major (symbolic Vec::insert position) is outside the claim
//! @bound first 3 ranges / items of iterators; unwind 12
#![allow(unused, clippy::all)]

#[cfg(not(kani))]
#[path = "/verif/harness/shim/shim.rs"]
mod kani;

use super::*;
use super::super::bitpage::verif_harness::{any_page_with, member as page_member};

/// two pages: `pages[1]` holds major `m0`, `pages[0]` holds major `m1` (m0 < m1)
fn two_page_set(m0: u32, m1: u32) -> (BitSet, [u64; 8], [u64; 8]) {
    // first page: words 6 and 7 symbolic (the end of the page); second page: words 0 and 1
    // symbolic (its start) -- the region where ranges run across a page boundary
    let w: [u64; 4] = kani::any();
    let s0: [u64; 8] = [0, 0, 0, 0, 0, 0, w[0], w[1]];
    let s1: [u64; 8] = [w[2], w[3], 0, 0, 0, 0, 0, 0];
    let p0 = any_page_with(s0);
    let p1 = any_page_with(s1);
    let length = p0.len() as u64 + p1.len() as u64;
    let set = BitSet {
        pages: vec![p1, p0],
        page_map: vec![PageInfo { index: 1, major_value: m0 }, PageInfo { index: 0, major_value: m1 }],
        length,
    };
    (set, s0, s1)
}

fn member(m0: u32, m1: u32, s0: &[u64; 8], s1: &[u64; 8], v: u32) -> bool {
    let major = v >> 9;
    if major == m0 {
        page_member(s0, v & 511)
    } else if major == m1 {
        page_member(s1, v & 511)
    } else {
        false
    }
}

fn check_ranges(m0: u32, m1: u32, max_ranges: u32) {
    let (set, s0, s1) = two_page_set(m0, m1);
    let mut it = set.iter_ranges();
    let mut prev_end: Option<u32> = None;
    let mut n = 0;
    while n < max_ranges {
        let Some(r) = it.next() else { break };
        let (s, e) = (*r.start(), *r.end());
        assert!(s <= e);
        // every element of the range is a member
        let g: u32 = kani::any();
        kani::assume(g >= s && g <= e);
        assert!(member(m0, m1, &s0, &s1, g));
        // the range is maximal
        if s > 0 {
            assert!(!member(m0, m1, &s0, &s1, s - 1));
        }
        assert!(!member(m0, m1, &s0, &s1, e + 1));
        // nothing between the previous range and this one is a member
        let lo = match prev_end {
            Some(q) => {
                assert!(s > q + 1);
                q + 1
            }
            None => 0,
        };
        let h: u32 = kani::any();
        kani::assume(h >= lo && h < s);
        assert!(!member(m0, m1, &s0, &s1, h));
        prev_end = Some(e);
        n += 1;
    }
    if n < max_ranges {
        // iterator ended: no member after the last range
        let h: u32 = kani::any();
        kani::assume(prev_end.map(|q| h > q).unwrap_or(true));
        assert!(!member(m0, m1, &s0, &s1, h));
    }
    kani::cover!(n == max_ranges, "all requested ranges returned");
    kani::cover!(n >= 1 && prev_end.map(|e| e >> 9 == m1).unwrap_or(false), "a range ends in the second page");
    drop(it);
    core::mem::forget(set);
}

// @bound first range only
// @timeout 1500
#[cfg_attr(kani, kani::proof)]
#[cfg_attr(kani, kani::unwind(10))]
pub fn c14_bitset_first_range_gap_layout() {
    check_ranges(0, 2, 1);
}

// @bound first range only
// @timeout 1500
#[cfg_attr(kani, kani::proof)]
#[cfg_attr(kani, kani::unwind(10))]
pub fn c14_bitset_first_range_adjacent_layout() {
    check_ranges(0, 1, 1);
}

// @bound first two ranges
// @tier thorough
// @timeout 3000
// @mem 30
#[cfg_attr(kani, kani::proof)]
#[cfg_attr(kani, kani::unwind(10))]
pub fn c14_bitset_two_ranges_gap_layout() {
    check_ranges(0, 2, 2);
}

// @timeout 1500
#[cfg_attr(kani, kani::proof)]
#[cfg_attr(kani, kani::unwind(12))]
pub fn c14_bitset_contains_insert_remove_len() {
    let (mut set, s0, s1) = two_page_set(0, 2);
    let probe: u32 = kani::any();
    assert!(set.contains(probe) == member(0, 2, &s0, &s1, probe));
    let before_len = set.len();
    let v: u32 = kani::any();
    kani::assume(v >> 9 == 0 || v >> 9 == 2);
    let was = member(0, 2, &s0, &s1, v);
    let is_new = set.insert(v);
    assert!(is_new == !was);
    assert!(set.contains(probe) == (member(0, 2, &s0, &s1, probe) || probe == v));
    assert!(set.len() == before_len + is_new as u64);
    let removed = set.remove(v);
    assert!(removed);
    assert!(set.contains(probe) == (member(0, 2, &s0, &s1, probe) && probe != v));
    assert!(set.len() == before_len - was as u64);
    // removing from a major that has no page is a no-op
    let w: u32 = kani::any();
    kani::assume(w >> 9 != 0 && w >> 9 != 2);
    assert!(!set.remove(w));
    kani::cover!(was && probe >> 9 == 2 && member(0, 2, &s0, &s1, probe), "member in the out-of-order page");
    core::mem::forget(set);
}

// @bound one remove_range(start..=end) on a ONE-page set (major 0, words 6 and 7 symbolic) with start and end anywhere in that page, including empty and single-element ranges: membership of a symbolic probe and the cached length afterwards; unwind 10 (runs out of 10 GB in the quick tier)
// @tier thorough
// @timeout 3000
// @mem 30
#[cfg_attr(kani, kani::proof)]
#[cfg_attr(kani, kani::unwind(10))]
pub fn c14_bitset_remove_range_single_page() {
    let w: [u64; 2] = kani::any();
    let s0: [u64; 8] = [0, 0, 0, 0, 0, 0, w[0], w[1]];
    let p0 = any_page_with(s0);
    let before_len = p0.len() as u64;
    let mut set = BitSet { pages: vec![p0], page_map: vec![PageInfo { index: 0, major_value: 0 }], length: before_len };
    let a: u16 = kani::any();
    let b: u16 = kani::any();
    let start = (a & 511) as u32;
    let end = (b & 511) as u32;
    set.remove_range(start..=end);
    let probe: u32 = kani::any();
    let was = probe < 512 && page_member(&s0, probe);
    let in_range = start <= probe && probe <= end;
    assert!(set.contains(probe) == (was && !in_range));
    assert!(set.len() <= before_len);
    if was && in_range {
        assert!(set.len() < before_len);
    }
    kani::cover!(start == end && page_member(&s0, start), "single-element range removes a member");
    core::mem::forget(set);
}

fn one_word_set(w: u64) -> (BitSet, [u64; 8]) {
    let s0: [u64; 8] = [0, 0, 0, 0, 0, 0, 0, w];
    let p0 = any_page_with(s0);
    let length = p0.len() as u64;
    (BitSet { pages: vec![p0], page_map: vec![PageInfo { index: 0, major_value: 0 }], length }, s0)
}

// @bound one remove_range(x..=x) (a single-element range, x anywhere in 448..=511) on a ONE-page set (major 0, word 7 symbolic): membership of a symbolic probe in that page afterwards (the cached length is not compared here); unwind 10
#[cfg_attr(kani, kani::proof)]
#[cfg_attr(kani, kani::unwind(10))]
pub fn c14_bitset_remove_range_single_element() {
    let (mut set, s0) = one_word_set(kani::any());
    let a: u8 = kani::any();
    let x = 448 + (a & 63) as u32;
    set.remove_range(x..=x);
    let p: u8 = kani::any();
    let probe = 448 + (p & 63) as u32;
    assert!(set.contains(probe) == (page_member(&s0, probe) && probe != x));
    kani::cover!(page_member(&s0, x), "single-element range removes a member");
    core::mem::forget(set);
}

// @bound one remove_range(start..=end) on the same set with start and end both anywhere inside word 7 (448..=511), so BitPage's word loop runs exactly once: empty (start > end), single-element and longer ranges; membership of a symbolic probe in that page afterwards; unwind 10 (did not finish in 300 s in the quick tier)
// @tier thorough
// @timeout 3000
#[cfg_attr(kani, kani::proof)]
#[cfg_attr(kani, kani::unwind(10))]
pub fn c14_bitset_remove_range_single_word() {
    let (mut set, s0) = one_word_set(kani::any());
    let a: u8 = kani::any();
    let b: u8 = kani::any();
    let start = 448 + (a & 63) as u32;
    let end = 448 + (b & 63) as u32;
    set.remove_range(start..=end);
    let p: u8 = kani::any();
    let probe = 448 + (p & 63) as u32;
    let in_range = start <= probe && probe <= end;
    assert!(set.contains(probe) == (page_member(&s0, probe) && !in_range));
    kani::cover!(start < end && page_member(&s0, start), "longer range removes a member");
    core::mem::forget(set);
}

/// remove_range(start..=end) with `start` in major `smaj` and `end` in major `emaj` (the majors
/// are concrete so that the page walk is decided at symbolic-execution time; the offsets inside
/// the pages are symbolic, so empty, single-element and whole-page ranges are all included)
fn check_remove_range(m0: u32, m1: u32, smaj: u32, emaj: u32) {
    let (mut set, s0, s1) = two_page_set(m0, m1);
    let before_len = set.len();
    let a: u16 = kani::any();
    let b: u16 = kani::any();
    let start = smaj * 512 + (a & 511) as u32;
    let end = emaj * 512 + (b & 511) as u32;
    set.remove_range(start..=end);
    let probe: u32 = kani::any();
    let in_range = start <= probe && probe <= end;
    assert!(set.contains(probe) == (member(m0, m1, &s0, &s1, probe) && !in_range));
    assert!(set.len() <= before_len);
    if member(m0, m1, &s0, &s1, probe) && in_range {
        assert!(set.len() < before_len);
    }
    kani::cover!(start == end && member(m0, m1, &s0, &s1, start), "single-element range removes a member");
    core::mem::forget(set);
}

// @bound one remove_range(start..=end), start and end anywhere inside the first page (major 0) of the two-page layout {0, 2}, including empty and single-element ranges; membership of a symbolic probe and the cached length afterwards (did not finish in 420 s / ran out of 10 GB in the quick tier)
// @tier thorough
// @timeout 3000
// @mem 30
#[cfg_attr(kani, kani::proof)]
#[cfg_attr(kani, kani::unwind(10))]
pub fn c14_bitset_remove_range_within_first_page() {
    check_remove_range(0, 2, 0, 0);
}

// @bound the same with start in the first page and end in the second page (major 2): the range spans the missing page
// @tier thorough
// @timeout 3000
// @mem 30
#[cfg_attr(kani, kani::proof)]
#[cfg_attr(kani, kani::unwind(10))]
pub fn c14_bitset_remove_range_across_pages() {
    check_remove_range(0, 2, 0, 2);
}

// @bound the same with start in the missing major 1 and end in the second page
// @tier thorough
// @timeout 3000
#[cfg_attr(kani, kani::proof)]
#[cfg_attr(kani, kani::unwind(10))]
pub fn c14_bitset_remove_range_from_missing_page() {
    check_remove_range(0, 2, 1, 2);
}

// @tier thorough
// @timeout 3000
// @mem 30
#[cfg_attr(kani, kani::proof)]
#[cfg_attr(kani, kani::unwind(12))]
pub fn c14_bitset_iter_and_iter_after() {
    let (set, s0, s1) = two_page_set(0, 2);
    // first / last element
    let first = set.iter().next();
    match first {
        Some(x) => {
            assert!(member(0, 2, &s0, &s1, x));
            let g: u32 = kani::any();
            kani::assume(g < x);
            assert!(!member(0, 2, &s0, &s1, g));
        }
        None => {
            let g: u32 = kani::any();
            assert!(!member(0, 2, &s0, &s1, g));
        }
    }
    let last = set.iter().next_back();
    if let Some(x) = last {
        assert!(member(0, 2, &s0, &s1, x));
        let g: u32 = kani::any();
        kani::assume(g > x);
        assert!(!member(0, 2, &s0, &s1, g));
    }
    let v: u32 = kani::any();
    match set.iter_after(v).next() {
        Some(x) => {
            assert!(x > v && member(0, 2, &s0, &s1, x));
            let g: u32 = kani::any();
            kani::assume(g > v && g < x);
            assert!(!member(0, 2, &s0, &s1, g));
            kani::cover!(v >> 9 == 1, "value in the missing page");
            kani::cover!(v >> 9 == 0 && x >> 9 == 2, "next member is in the later page");
        }
        None => {
            let g: u32 = kani::any();
            kani::assume(g > v);
            assert!(!member(0, 2, &s0, &s1, g));
        }
    }
    core::mem::forget(set);
}

#[cfg(all(test, not(kani)))]
include!("bitset_dispatch.rs");

#[cfg(all(test, not(kani)))]
#[test]
fn verif_replay() {
    let Ok(path) = std::env::var("VERIF_REPLAY_FILE") else {
        return;
    };
    let (name, vals) = kani::read_replay_file(&path);
    if let Some(f) = verif_dispatch(&name) {
        kani::load(vals);
        f();
        println!("VERIF-REPLAY-COMPLETED");
    }
}
