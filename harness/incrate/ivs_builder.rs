//! C11 (writer-side kernel): the column-width choice of the variation-store builder.
//! Pulled into write-fonts/src/tables/variations/ivs_builder.rs as `mod verif_harness`.
//!
//! @assume only the scalar kernel that decides how many bytes a delta column needs is decided here; the builder itself (IndexMap/HashMap/BinaryHeap, row merging, region pruning) is outside CBMC's reach
#![allow(unused, clippy::all)]

#[cfg(not(kani))]
#[path = "/verif/harness/shim/shim.rs"]
mod kani;

use super::*;

// @bound every i32 delta: the chosen width is the smallest of {0, 1, 2, 4} bytes whose signed range holds the value, so writing the value at that width and sign-extending it back is lossless
#[cfg_attr(kani, kani::proof)]
pub fn c11_ivs_column_width_holds_the_delta() {
    let v: i32 = kani::any();
    let bits = ColumnBits::for_val(v);
    let cost = bits.cost();
    let exp = if v == 0 {
        0
    } else if v >= -128 && v <= 127 {
        1
    } else if v >= -32768 && v <= 32767 {
        2
    } else {
        4
    };
    assert!(cost == exp);
    // what the reader does with a column of that width
    let back = match cost {
        0 => 0,
        1 => v as i8 as i32,
        2 => v as i16 as i32,
        _ => v,
    };
    assert!(back == v);
    // widths are ordered like their cost (row shapes are merged with max())
    let w: i32 = kani::any();
    let other = ColumnBits::for_val(w);
    assert!((bits <= other) == (bits.cost() <= other.cost()));
    kani::cover!(v == 32768, "first value that needs four bytes");
}

#[cfg(all(test, not(kani)))]
include!("ivs_builder_dispatch.rs");

#[cfg(all(test, not(kani)))]
#[test]
fn verif_replay() {
    let Ok(path) = std::env::var("VERIF_REPLAY_FILE") else {
        return;
    };
    let (name, vals) = kani::read_replay_file(&path);
    if let Some(f) = verif_dispatch(&name) {
        kani::load(vals);
        f();
        println!("VERIF-REPLAY-COMPLETED");
    }
}
