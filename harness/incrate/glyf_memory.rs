//! C12 (buffer carving) and C02 (too-small scratch memory): skrifa's outline memory allocator.
//! Pulled into skrifa/src/outline/glyf/memory.rs as `mod verif_harness`.
//!
//! @assume the clauses of C12 about reuse of hinting instances, draw history and concurrent draws are NOT decided here (they need whole fonts and thread schedules)
//! @bound every Outline with each count <= 3, has_variations/has_hinting symbolic, both Hinting modes, every buffer start alignment 0..7
#![allow(unused, clippy::all)]

#[cfg(not(kani))]
#[path = "/verif/harness/shim/shim.rs"]
mod kani;

use super::*;

fn any_outline() -> Outline<'static> {
    let c = |_: ()| -> usize {
        let v: usize = kani::any();
        kani::assume(v <= 3);
        v
    };
    Outline {
        points: c(()),
        contours: c(()),
        max_simple_points: c(()),
        max_other_points: c(()),
        max_component_delta_stack: c(()),
        max_stack: c(()),
        cvt_count: c(()),
        storage_count: c(()),
        max_twilight_points: c(()),
        has_hinting: kani::any(),
        has_variations: kani::any(),
        has_overlaps: kani::any(),
        ..Default::default()
    }
}

fn disjoint<T, U>(a: &[T], b: &[U]) -> bool {
    let (a0, a1) = (a.as_ptr() as usize, a.as_ptr() as usize + core::mem::size_of_val(a));
    let (b0, b1) = (b.as_ptr() as usize, b.as_ptr() as usize + core::mem::size_of_val(b));
    a.is_empty() || b.is_empty() || a1 <= b0 || b1 <= a0
}

// @bound buffer = exactly required_buffer_size(hinting) bytes starting at any alignment: allocation succeeds with the documented lengths, aligned and pairwise disjoint slices
// @timeout 1200
#[cfg_attr(kani, kani::proof)]
#[cfg_attr(kani, kani::unwind(6))]
pub fn c12_memory_advertised_size_is_enough() {
    let o = any_outline();
    let hinting = if kani::any() { Hinting::Embedded } else { Hinting::None };
    let need = o.required_buffer_size(hinting);
    // 3 of everything: 3*8*3 + ... < 400
    assert!(need <= 400);
    let mut backing = [0u64; 52];
    let bytes: &mut [u8] = bytemuck::cast_slice_mut(&mut backing[..]);
    let a: usize = kani::any();
    kani::assume(a < 8);
    let m = FreeTypeOutlineMemory::new(&o, &mut bytes[a..a + need], hinting);
    let hinted = o.has_hinting && hinting == Hinting::Embedded;
    let Some(m) = m else {
        assert!(false);
        return;
    };
    assert!(m.scaled.len() == o.points);
    assert!(m.unscaled.len() == o.max_other_points);
    assert!(m.original_scaled.len() == if hinted { o.max_other_points } else { 0 });
    assert!(m.contours.len() == o.contours);
    assert!(m.flags.len() == o.points);
    assert!(m.deltas.len() == if o.has_variations { o.max_simple_points } else { 0 });
    assert!(m.iup_buffer.len() == if o.has_variations { o.max_simple_points } else { 0 });
    assert!(m.composite_deltas.len() == if o.has_variations { o.max_component_delta_stack } else { 0 });
    assert!(m.stack.len() == if hinted { o.max_stack } else { 0 });
    assert!(m.cvt.len() == if hinted { o.cvt_count } else { 0 });
    assert!(m.storage.len() == if hinted { o.storage_count } else { 0 });
    assert!(m.twilight_scaled.len() == if hinted { o.max_twilight_points } else { 0 });
    assert!(m.twilight_original_scaled.len() == if hinted { o.max_twilight_points } else { 0 });
    assert!(m.twilight_flags.len() == if hinted { o.max_twilight_points } else { 0 });
    assert!(m.scaled.as_ptr() as usize % 4 == 0 && m.unscaled.as_ptr() as usize % 4 == 0);
    assert!(m.stack.as_ptr() as usize % 4 == 0 && m.contours.as_ptr() as usize % 2 == 0);
    assert!(disjoint(m.scaled, m.unscaled) && disjoint(m.scaled, m.original_scaled) && disjoint(m.unscaled, m.original_scaled));
    assert!(disjoint(m.scaled, m.contours) && disjoint(m.scaled, m.flags) && disjoint(m.contours, m.flags));
    assert!(disjoint(m.stack, m.cvt) && disjoint(m.cvt, m.storage) && disjoint(m.stack, m.scaled));
    assert!(disjoint(m.deltas, m.iup_buffer) && disjoint(m.deltas, m.composite_deltas) && disjoint(m.deltas, m.scaled));
    assert!(disjoint(m.twilight_scaled, m.twilight_original_scaled) && disjoint(m.twilight_flags, m.flags));
    kani::cover!(hinted && o.has_variations && o.points == 3 && a == 1, "everything allocated from an unaligned start");
}

// @bound buffer of ANY length 0..=64 at any alignment: new() returns None or Some, never panics (too-small scratch memory surfaces as an absence)
// @timeout 1200
#[cfg_attr(kani, kani::proof)]
#[cfg_attr(kani, kani::unwind(6))]
pub fn c02_memory_any_buffer_is_total() {
    let o = any_outline();
    let hinting = if kani::any() { Hinting::Embedded } else { Hinting::None };
    let mut backing = [0u64; 10];
    let bytes: &mut [u8] = bytemuck::cast_slice_mut(&mut backing[..]);
    let a: usize = kani::any();
    let l: usize = kani::any();
    kani::assume(a < 8 && l <= 64);
    let need = o.required_buffer_size(hinting);
    let r = FreeTypeOutlineMemory::new(&o, &mut bytes[a..a + l], hinting).is_some();
    if l >= need {
        assert!(r);
    }
    kani::cover!(!r, "too small");
    kani::cover!(r && need > 0, "fits");
}

// @timeout 1200
#[cfg_attr(kani, kani::proof)]
#[cfg_attr(kani, kani::unwind(6))]
pub fn c02_memory_harfbuzz_any_buffer_is_total() {
    let o = any_outline();
    let mut backing = [0u64; 24];
    let bytes: &mut [u8] = bytemuck::cast_slice_mut(&mut backing[..]);
    let a: usize = kani::any();
    let l: usize = kani::any();
    kani::assume(a < 8 && l <= 180);
    let r = HarfBuzzOutlineMemory::new(&o, &mut bytes[a..a + l]);
    if let Some(m) = r {
        assert!(m.points.len() == o.points && m.contours.len() == o.contours && m.flags.len() == o.points);
        assert!(disjoint(m.points, m.contours) && disjoint(m.points, m.flags) && disjoint(m.contours, m.flags));
        assert!(disjoint(m.deltas, m.iup_buffer) && disjoint(m.deltas, m.points));
        kani::cover!(o.has_variations && o.max_simple_points == 3, "variation buffers allocated");
    }
}

#[cfg(all(test, not(kani)))]
include!("glyf_memory_dispatch.rs");

#[cfg(all(test, not(kani)))]
#[test]
fn verif_replay() {
    let Ok(path) = std::env::var("VERIF_REPLAY_FILE") else {
        return;
    };
    let (name, vals) = kani::read_replay_file(&path);
    if let Some(f) = verif_dispatch(&name) {
        kani::load(vals);
        f();
        println!("VERIF-REPLAY-COMPLETED");
    }
}
