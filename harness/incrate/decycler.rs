//! C13 (cycle/depth guard): skrifa's Decycler, the mechanism that bounds paint-graph and
//! composite-glyph recursion. Pulled into skrifa/src/decycler.rs as `mod verif_harness`.
//!
//! @assume callback balance of traverse_with_callbacks over whole paint graphs is NOT decided (font-backed recursive function with f32 transforms); this check decides the guard that makes the recursion finite
//! @bound Decycler<usize, 64> (the PaintDecycler instantiation) and Decycler<u32, 8>
#![allow(unused, clippy::all)]

#[cfg(not(kani))]
#[path = "/verif/harness/shim/shim.rs"]
mod kani;

use super::*;

// @bound one enter() from an ARBITRARY state (any depth <= 64, any 64 stored ids), then guard drop
#[cfg_attr(kani, kani::proof)]
#[cfg_attr(kani, kani::unwind(66))]
pub fn c13_decycler_one_step_from_any_state() {
    let node_ids: [usize; 64] = kani::any();
    let depth: usize = kani::any();
    kani::assume(depth <= 64);
    let mut d: Decycler<usize, 64> = Decycler { node_ids, depth };
    let id: usize = kani::any();
    let half = if depth < 64 { node_ids[depth / 2] } else { 0 };
    {
        let r = d.enter(id);
        match r {
            Ok(g) => {
                assert!(depth < 64);
                assert!(depth == 0 || half != id);
                assert!(g.depth == depth + 1);
                assert!(g.node_ids[depth] == id);
                kani::cover!(depth == 63, "deepest successful enter");
            }
            Err(DecyclerError::DepthLimitExceeded) => assert!(depth == 64),
            Err(DecyclerError::CycleDetected) => {
                assert!(depth < 64 && depth > 0 && half == id);
            }
        }
        // guard (if any) dropped here
    }
    assert!(d.depth == depth);
    kani::cover!(depth == 64, "at the limit");
}

fn descend(d: &mut Decycler<u32, 8>, ids: &[u32; 3], p: usize, k: usize, max: usize) -> Result<usize, DecyclerError> {
    if k == max {
        return Ok(k);
    }
    let mut g = d.enter(ids[k % p])?;
    descend(&mut g, ids, p, k + 1, max)
}

// @bound every id sequence that is periodic with period p <= 3 (a cycle in the graph): nested enter() fails within 2p + 1 levels; unwind 10
#[cfg_attr(kani, kani::proof)]
#[cfg_attr(kani, kani::unwind(10))]
pub fn c13_decycler_detects_cycles() {
    let ids: [u32; 3] = kani::any();
    let p: usize = kani::any();
    kani::assume(p >= 1 && p <= 3);
    let mut d: Decycler<u32, 8> = Decycler::new();
    let r = descend(&mut d, &ids, p, 0, 2 * p + 1);
    assert!(r.is_err());
    assert!(d.depth == 0);
    kani::cover!(p == 3, "period three");
}

// @bound an acyclic path (pairwise distinct ids) of length <= 8 never raises a false cycle error and stops exactly at the depth limit
#[cfg_attr(kani, kani::proof)]
#[cfg_attr(kani, kani::unwind(11))]
pub fn c13_decycler_no_false_cycle_and_depth_limit() {
    let mut d: Decycler<u32, 8> = Decycler::new();
    fn go(d: &mut Decycler<u32, 8>, k: u32) -> Result<u32, DecyclerError> {
        if k == 9 {
            return Ok(k);
        }
        let mut g = d.enter(k)?;
        go(&mut g, k + 1)
    }
    let r = go(&mut d, 0);
    assert!(matches!(r, Err(DecyclerError::DepthLimitExceeded)));
    let mut d2: Decycler<u32, 8> = Decycler::new();
    fn go2(d: &mut Decycler<u32, 8>, k: u32) -> Result<u32, DecyclerError> {
        if k == 8 {
            return Ok(k);
        }
        let mut g = d.enter(k)?;
        go2(&mut g, k + 1)
    }
    assert!(matches!(go2(&mut d2, 0), Ok(8)));
    kani::cover!(true, "reached");
}

#[cfg(all(test, not(kani)))]
include!("decycler_dispatch.rs");

#[cfg(all(test, not(kani)))]
#[test]
fn verif_replay() {
    let Ok(path) = std::env::var("VERIF_REPLAY_FILE") else {
        return;
    };
    let (name, vals) = kani::read_replay_file(&path);
    if let Some(f) = verif_dispatch(&name) {
        kani::load(vals);
        f();
        println!("VERIF-REPLAY-COMPLETED");
    }
}
