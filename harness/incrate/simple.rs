//! C09 (writer kernels): the simple-glyph delta/flag encoder against the glyf spec's decoding rules.
//! Pulled into write-fonts/src/tables/glyf/simple.rs as `mod verif_harness`.
//!
//! @assume the final byte serialisation (FontWrite for SimpleGlyph through TableWriter's Vec<u8>) is NOT encoded — CBMC exceeded 50 GB on the simplest TableWriter round trip; this decides the kernels that choose flags, delta forms and repeat counts
//! @bound one contour of 3 symbolic points whose successive deltas are representable in i16; flag lists of <= 4 symbolic flags
#![allow(unused, clippy::all)]

#[cfg(not(kani))]
#[path = "/verif/harness/shim/shim.rs"]
mod kani;

use super::*;

/// spec decoding of one axis: (short bit, same-or-positive bit, data) -> delta and encoded size in bytes
fn spec_axis(short: bool, same_or_pos: bool, data: CoordDelta) -> Option<(i32, u32)> {
    match (short, same_or_pos, data) {
        (true, true, CoordDelta::Short(v)) => Some((v as i32, 1)),
        (true, false, CoordDelta::Short(v)) => Some((-(v as i32), 1)),
        (false, true, CoordDelta::Skip) => Some((0, 0)),
        (false, false, CoordDelta::Long(v)) => Some((v as i32, 2)),
        _ => None, // flag bits and data form disagree: a reader would mis-parse the stream
    }
}

fn shortest(delta: i32) -> u32 {
    if delta == 0 {
        0
    } else if delta >= -255 && delta <= 255 {
        1
    } else {
        2
    }
}

// @timeout 1500
#[cfg_attr(kani, kani::proof)]
#[cfg_attr(kani, kani::unwind(6))]
pub fn c09_point_deltas_decode_back_and_are_shortest() {
    let xs: [i16; 3] = kani::any();
    let ys: [i16; 3] = kani::any();
    let on: [bool; 3] = kani::any();
    // representable successive deltas (what the builder accepts)
    let mut i = 0;
    let (mut px, mut py) = (0i32, 0i32);
    while i < 3 {
        let (dx, dy) = (xs[i] as i32 - px, ys[i] as i32 - py);
        kani::assume(dx >= -32768 && dx <= 32767 && dy >= -32768 && dy <= 32767);
        px = xs[i] as i32;
        py = ys[i] as i32;
        i += 1;
    }
    let glyph = SimpleGlyph {
        bbox: Default::default(),
        contours: vec![Contour(vec![
            CurvePoint::new(xs[0], ys[0], on[0]),
            CurvePoint::new(xs[1], ys[1], on[1]),
            CurvePoint::new(xs[2], ys[2], on[2]),
        ])],
        instructions: Vec::new(),
    };
    let mut it = glyph.compute_point_deltas();
    let (mut px, mut py) = (0i32, 0i32);
    let mut i = 0;
    while i < 3 {
        let (flag, dx, dy) = it.next().expect("one triple per point");
        let sx = spec_axis(
            flag.contains(SimpleGlyphFlags::X_SHORT_VECTOR),
            flag.contains(SimpleGlyphFlags::X_IS_SAME_OR_POSITIVE_X_SHORT_VECTOR),
            dx,
        );
        let sy = spec_axis(
            flag.contains(SimpleGlyphFlags::Y_SHORT_VECTOR),
            flag.contains(SimpleGlyphFlags::Y_IS_SAME_OR_POSITIVE_Y_SHORT_VECTOR),
            dy,
        );
        let (ddx, bx) = sx.expect("x flag bits match the data form");
        let (ddy, by) = sy.expect("y flag bits match the data form");
        // decoding gives the point back
        assert!(px + ddx == xs[i] as i32 && py + ddy == ys[i] as i32);
        assert!(flag.contains(SimpleGlyphFlags::ON_CURVE_POINT) == on[i]);
        assert!(!flag.contains(SimpleGlyphFlags::REPEAT_FLAG));
        // never longer than the canonical shortest form
        assert!(bx == shortest(ddx) && by == shortest(ddy));
        px = xs[i] as i32;
        py = ys[i] as i32;
        i += 1;
    }
    assert!(it.next().is_none());
    kani::cover!(xs[1] as i32 - xs[0] as i32 == -256, "delta of exactly -256");
    kani::cover!(ys[2] == ys[1], "repeated coordinate");
    drop(it);
    core::mem::forget(glyph);
}

// @bound RepeatableFlag::iter_from_flags on 4 symbolic flags (REPEAT bit clear on input): expanding the (flag, repeat) items reproduces the input, repeat > 0 <=> REPEAT_FLAG set; unwind 8
// @timeout 1500
#[cfg_attr(kani, kani::proof)]
#[cfg_attr(kani, kani::unwind(8))]
pub fn c09_repeat_flags_expand_back() {
    let raw: [u8; 4] = kani::any();
    let n: usize = kani::any();
    kani::assume(n >= 1 && n <= 4);
    let mut flags = [SimpleGlyphFlags::empty(); 4];
    let mut i = 0;
    while i < 4 {
        flags[i] = SimpleGlyphFlags::from_bits_truncate(raw[i] & 0x37);
        i += 1;
    }
    let mut it = RepeatableFlag::iter_from_flags(flags[..n].iter().copied());
    let mut pos = 0usize;
    let mut items = 0;
    while items < 5 {
        let Some(rf) = it.next() else { break };
        assert!(rf.flag.contains(SimpleGlyphFlags::REPEAT_FLAG) == (rf.repeat > 0));
        let mut k = 0usize;
        while k <= rf.repeat as usize {
            assert!(pos < n);
            assert!(rf.flag.bits() & 0x37 == flags[pos].bits());
            pos += 1;
            k += 1;
        }
        items += 1;
    }
    assert!(pos == n);
    kani::cover!(items == 1 && n == 4, "one run of four");
    kani::cover!(items == 4, "no repeats");
}

#[cfg(all(test, not(kani)))]
include!("simple_dispatch.rs");

#[cfg(all(test, not(kani)))]
#[test]
fn verif_replay() {
    let Ok(path) = std::env::var("VERIF_REPLAY_FILE") else {
        return;
    };
    let (name, vals) = kani::read_replay_file(&path);
    if let Some(f) = verif_dispatch(&name) {
        kani::load(vals);
        f();
        println!("VERIF-REPLAY-COMPLETED");
    }
}
