//! C02 (and the skrifa part of C12, C20): in-crate Kani harnesses for the TrueType interpreter.
//! Pulled into skrifa/src/outline/glyf/hint/engine/mod.rs as `mod verif_harness` under
//! `--cfg googlefonts_fontations_verif`.
//!
//! @assume interpreter state is built directly on the stack (no HintingInstance / Vec): value stack of 8 slots with k<=6 symbolic pre-pushed values, cvt 4 + storage 4 symbolic, 2 function + 2 instruction definitions (function 0 active with a symbolic code range), glyph zone and twilight zone of 4 points each with symbolic unscaled/original/current coordinates and flags, one contour [3]
//! @assume loop budget counters are <= limit (a counter beyond the limit has already returned ExceededExecutionBudget)
//! @assume graphics state is the default one except: scale, ppem, is_pedantic, backward_compatibility, zp0-2, rp0-2, loop_counter (<= 4: in non-pedantic mode a pop from an empty stack yields 0, so loop-counted instructions really iterate loop_counter times; larger counters are outside the bound) are symbolic (each is settable to that value by one real instruction)
//! @bound one decode()+dispatch() of a 17-byte program whose first byte is the (concrete) opcode and whose remaining bytes are symbolic (PUSHW[7] needs 16 operand bytes)
#![allow(unused, clippy::all)]

#[cfg(not(kani))]
#[path = "/verif/harness/shim/shim.rs"]
mod kani;

use super::super::{
    cow_slice::CowSlice,
    definition::{Definition, DefinitionMap, DefinitionState},
    program::{Program, ProgramState},
    zone::{Zone, ZonePointer},
};
use super::{Engine, GraphicsState, LoopBudget, ValueStack};
use raw::tables::glyf::PointFlags;
use raw::types::{F26Dot6, Point};

fn any_point_i32() -> Point<i32> {
    Point::new(kani::any(), kani::any())
}
fn any_point_f26() -> Point<F26Dot6> {
    Point::new(F26Dot6::from_bits(kani::any()), F26Dot6::from_bits(kani::any()))
}
fn any_zp() -> ZonePointer {
    if kani::any() {
        ZonePointer::Glyph
    } else {
        ZonePointer::Twilight
    }
}

/// Build an engine over stack-allocated symbolic state and hand it to `$body`.
macro_rules! with_engine {
    ($code:expr, $program:expr, |$e:ident| $body:block) => {{
        let mut cvt_buf: [i32; 4] = kani::any();
        let mut storage_buf: [i32; 4] = kani::any();
        let mut stack_buf = [0i32; 8];
        let mut fdefs = [Definition::default(); 2];
        let mut idefs = [Definition::default(); 2];
        if kani::any() {
            let s: u8 = kani::any();
            let l: u8 = kani::any();
            fdefs[0] = Definition::new(
                if kani::any() { Program::Font } else { Program::Glyph },
                (s as usize)..(s as usize + l as usize),
                0,
            );
        }
        let unscaled: [Point<i32>; 4] = [any_point_i32(), any_point_i32(), any_point_i32(), any_point_i32()];
        let mut original: [Point<F26Dot6>; 4] = [any_point_f26(), any_point_f26(), any_point_f26(), any_point_f26()];
        let mut points: [Point<F26Dot6>; 4] = [any_point_f26(), any_point_f26(), any_point_f26(), any_point_f26()];
        let mut flags: [PointFlags; 4] = [
            PointFlags::from_bits(kani::any()),
            PointFlags::from_bits(kani::any()),
            PointFlags::from_bits(kani::any()),
            PointFlags::from_bits(kani::any()),
        ];
        let contours = [3u16];
        let mut tw_original: [Point<F26Dot6>; 4] = [any_point_f26(), any_point_f26(), any_point_f26(), any_point_f26()];
        let mut tw_points: [Point<F26Dot6>; 4] = [any_point_f26(), any_point_f26(), any_point_f26(), any_point_f26()];
        let mut tw_flags = [PointFlags::default(); 4];
        let glyph_zone = Zone::new(&unscaled, &mut original, &mut points, &mut flags, &contours);
        let twilight_zone = Zone::new(&[], &mut tw_original, &mut tw_points, &mut tw_flags, &[]);
        let mut graphics = GraphicsState {
            zones: [twilight_zone, glyph_zone],
            ..Default::default()
        };
        graphics.update_projection_state();
        graphics.retained.scale = kani::any();
        graphics.retained.ppem = kani::any();
        graphics.is_pedantic = kani::any();
        graphics.backward_compatibility = kani::any();
        graphics.zp0 = any_zp();
        graphics.zp1 = any_zp();
        graphics.zp2 = any_zp();
        graphics.rp0 = kani::any();
        graphics.rp1 = kani::any();
        graphics.rp2 = kani::any();
        let lc: u32 = kani::any();
        kani::assume(lc <= 4);
        graphics.loop_counter = lc;
        let code: &[u8] = $code;
        let font_code: [u8; 4] = kani::any();
        let mut value_stack = ValueStack::new(&mut stack_buf, graphics.is_pedantic);
        let k: usize = kani::any();
        kani::assume(k <= 6);
        let mut i = 0;
        while i < 6 {
            if i < k {
                let _ = value_stack.push(kani::any());
            }
            i += 1;
        }
        let budget_limit: usize = kani::any();
        kani::assume(budget_limit <= 100_000);
        // reachable budget states: a counter that exceeded the limit has already stopped the program
        let budget_bj: usize = kani::any();
        let budget_lc: usize = kani::any();
        kani::assume(budget_bj <= budget_limit && budget_lc <= budget_limit);
        let mut $e = Engine {
            graphics,
            cvt: CowSlice::new_mut(&mut cvt_buf).into(),
            storage: CowSlice::new_mut(&mut storage_buf).into(),
            value_stack,
            program: ProgramState::new(&font_code, &[], code, $program),
            loop_budget: LoopBudget {
                limit: budget_limit,
                backward_jumps: budget_bj,
                loop_calls: budget_lc,
            },
            definitions: DefinitionState::new(DefinitionMap::Mut(&mut fdefs), DefinitionMap::Mut(&mut idefs)),
            axis_count: 0,
            coords: &[],
        };
        $body
    }};
}

/// One instruction with concrete opcode `op` from the arbitrary state above: decode + dispatch
/// must return (Ok or Err), never panic.
fn one_step(op: u8) {
    // PUSHW[7] carries 16 operand bytes
    let t: [u8; 16] = kani::any();
    // (written out: a copy loop would need its own unwinding bound)
    let code = [
        op, t[0], t[1], t[2], t[3], t[4], t[5], t[6], t[7], t[8], t[9], t[10], t[11], t[12], t[13], t[14], t[15],
    ];
    with_engine!(&code, Program::Glyph, |engine| {
        if let Some(Ok(ins)) = engine.decode() {
            let r = engine.dispatch(&ins);
            kani::cover!(r.is_ok(), "instruction can succeed");
            kani::cover!(r.is_err(), "instruction can fail");
        }
    });
}

/// Two instructions: `setter` (a graphics-state-mutating opcode) then `op`, so that `op` runs
/// from every graphics state reachable in one step.
fn two_step(setter: u8, op: u8) {
    let tail: [u8; 4] = kani::any();
    let code = [setter, op, tail[0], tail[1], tail[2], tail[3]];
    with_engine!(&code, Program::Glyph, |engine| {
        if let Some(Ok(ins)) = engine.decode() {
            if engine.dispatch(&ins).is_ok() {
                if let Some(Ok(ins2)) = engine.decode() {
                    let r = engine.dispatch(&ins2);
                    kani::cover!(r.is_ok(), "second instruction can succeed");
                }
            }
        }
    });
}

include!("engine_ops.rs");

/// `run()` on a whole (tiny) symbolic program: termination within the instruction budget and
/// no panic for programs of <= 3 bytes.
// @tier thorough
// @timeout 3000
// @bound symbolic 3-byte glyph program run to completion (run()), unwind 8
#[cfg_attr(kani, kani::proof)]
#[cfg_attr(kani, kani::unwind(8))]
pub fn c02_run_3_bytes() {
    let code: [u8; 3] = kani::any();
    with_engine!(&code, Program::Glyph, |engine| {
        let r = engine.run();
        kani::cover!(r.is_ok(), "program can finish");
    });
}

/// LoopBudget: counters only grow, and exceeding the limit is always reported.
#[cfg_attr(kani, kani::proof)]
pub fn c02_loop_budget() {
    let limit: usize = kani::any();
    let bj: usize = kani::any();
    let lc: usize = kani::any();
    kani::assume(limit <= 1 << 40 && bj <= 1 << 40 && lc <= 1 << 40);
    let mut b = LoopBudget { limit, backward_jumps: bj, loop_calls: lc };
    let r = b.doing_backward_jump();
    assert!(b.backward_jumps == bj + 1);
    assert!(r.is_err() == (bj + 1 > limit));
    let n: u32 = kani::any();
    let r = b.doing_loop_call(n as usize);
    assert!(b.loop_calls == lc + n as usize);
    assert!(r.is_err() == (lc + n as usize > limit));
    b.reset();
    assert!(b.backward_jumps == 0 && b.loop_calls == 0);
    kani::cover!(r.is_err(), "budget exceeded");
}

/// Native evaluation of the E2 (MIR->SMT) target functions of this crate on concrete inputs:
/// VERIF_VECTORS_FILE holds one "<target id> <args...>" per line.
#[cfg(all(test, not(kani)))]
#[test]
fn verif_vectors() {
    use super::super::{math, round::{RoundMode, RoundState}};
    let Ok(path) = std::env::var("VERIF_VECTORS_FILE") else {
        return;
    };
    std::panic::set_hook(Box::new(|_| {}));
    for line in std::fs::read_to_string(path).unwrap().lines() {
        let mut it = line.split_whitespace();
        let Some(id) = it.next() else { continue };
        let a: Vec<i64> = it.map(|s| s.parse().unwrap()).collect();
        let id2 = id.to_string();
        let r = std::panic::catch_unwind(move || {
            let x = |i: usize| a[i] as i32;
            Some(match id2.as_str() {
                "hint::math::floor" => math::floor(x(0)) as i64,
                "hint::math::round" => math::round(x(0)) as i64,
                "hint::math::ceil" => math::ceil(x(0)) as i64,
                "hint::math::round_pad" => math::round_pad(x(0), x(1)) as i64,
                "hint::math::mul" => math::mul(x(0), x(1)) as i64,
                "hint::math::div" => math::div(x(0), x(1)) as i64,
                "hint::math::mul_div" => math::mul_div(x(0), x(1), x(2)) as i64,
                "hint::math::mul_div_no_round" => math::mul_div_no_round(x(0), x(1), x(2)) as i64,
                "hint::math::mul14" => math::mul14(x(0), x(1)) as i64,
                "RoundState::round" => {
                    let mode = match a[0] {
                        0 => RoundMode::Grid,
                        1 => RoundMode::HalfGrid,
                        2 => RoundMode::DoubleGrid,
                        3 => RoundMode::DownToGrid,
                        4 => RoundMode::UpToGrid,
                        5 => RoundMode::Off,
                        6 => RoundMode::Super,
                        _ => RoundMode::Super45,
                    };
                    let rs = RoundState { mode, threshold: x(1), phase: x(2), period: x(3) };
                    rs.round(F26Dot6::from_bits(x(4))).to_bits() as i64
                }
                _ => return None,
            })
        });
        match r {
            Ok(Some(v)) => println!("VEC {line} = {v}"),
            Ok(None) => println!("VEC {line} = unknown-target"),
            Err(e) => {
                let msg = e.downcast_ref::<String>().cloned().or_else(|| e.downcast_ref::<&str>().map(|s| s.to_string())).unwrap_or_default();
                println!("VEC {line} = panic: {msg}")
            }
        }
    }
}

#[cfg(all(test, not(kani)))]
include!("engine_dispatch.rs");

#[cfg(all(test, not(kani)))]
#[test]
fn verif_replay() {
    let Ok(path) = std::env::var("VERIF_REPLAY_FILE") else {
        return;
    };
    let (name, vals) = kani::read_replay_file(&path);
    if let Some(f) = verif_dispatch(&name) {
        kani::load(vals);
        f();
        println!("VERIF-REPLAY-COMPLETED");
    }
}
