//! C14 (page level): BitPage against the mathematical 512-element set, one operation from an
//! ARBITRARY page (all 8 x u64 words symbolic). Pulled into read-fonts/src/collections/int_set/
//! bitpage.rs as `mod verif_harness` under `--cfg googlefonts_fontations_verif`.
//!
//! @assume representation invariant of a page: cached `length` == popcount of `storage` (established by every constructor and re-established by every operation — that re-establishment is what the harnesses check)
//! @bound one operation per query from an arbitrary valid page; membership is checked through a symbolic probe element, sizes through popcount
#![allow(unused, clippy::all)]

#[cfg(not(kani))]
#[path = "/verif/harness/shim/shim.rs"]
mod kani;

use super::*;

fn popcount(s: &[u64; 8]) -> u32 {
    let mut n = 0;
    let mut i = 0;
    while i < 8 {
        n += s[i].count_ones();
        i += 1;
    }
    n
}

fn any_page() -> BitPage {
    let storage: [u64; 8] = kani::any();
    BitPage { storage, length: popcount(&storage) }
}

/// a page whose words 0, 1 and 7 are symbolic and whose other words are zero: keeps the iterator
/// queries (flat_map over 8 words) within CBMC's reach while still crossing a word boundary (63|64)
/// and touching both page edges (0 and 511)
fn sparse_page() -> BitPage {
    let w: [u64; 3] = kani::any();
    any_page_with([w[0], w[1], 0, 0, 0, 0, 0, w[2]])
}

pub(crate) fn any_page_with(storage: [u64; 8]) -> BitPage {
    BitPage { storage, length: popcount(&storage) }
}

pub(crate) fn member(s: &[u64; 8], v: u32) -> bool {
    let v = v & 511;
    (s[(v / 64) as usize] >> (v % 64)) & 1 == 1
}

#[cfg_attr(kani, kani::proof)]
#[cfg_attr(kani, kani::unwind(10))]
pub fn c14_page_insert_remove_contains() {
    let mut p = any_page();
    let before = p.storage;
    let v: u32 = kani::any();
    let probe: u32 = kani::any();
    kani::assume(probe < 512);
    assert!(p.contains(probe) == member(&before, probe));
    let was = member(&before, v);
    let is_new = p.insert(v);
    assert!(is_new == !was);
    assert!(p.contains(v));
    assert!(p.contains(probe) == (member(&before, probe) || probe == (v & 511)));
    assert!(p.len() == popcount(&p.storage));
    assert!(p.len() == popcount(&before) + (!was) as u32);
    let mut q = BitPage { storage: before, length: popcount(&before) };
    let removed = q.remove(v);
    assert!(removed == was);
    assert!(!q.contains(v));
    assert!(q.contains(probe) == (member(&before, probe) && probe != (v & 511)));
    assert!(q.len() == popcount(&q.storage));
    assert!(q.is_empty() == (popcount(&q.storage) == 0));
    kani::cover!(was && probe != (v & 511) && member(&before, probe), "non-trivial page");
}

#[cfg_attr(kani, kani::proof)]
#[cfg_attr(kani, kani::unwind(10))]
pub fn c14_page_insert_range() {
    let mut p = any_page();
    let before = p.storage;
    let first: u32 = kani::any();
    let last: u32 = kani::any();
    kani::assume(first < 512 && last < 512 && first <= last);
    let probe: u32 = kani::any();
    kani::assume(probe < 512);
    p.insert_range(first, last);
    assert!(p.contains(probe) == (member(&before, probe) || (first <= probe && probe <= last)));
    assert!(p.len() == popcount(&p.storage));
    kani::cover!(first / 64 + 1 < last / 64, "range spans three words");
}

#[cfg_attr(kani, kani::proof)]
#[cfg_attr(kani, kani::unwind(10))]
pub fn c14_page_remove_range_clear() {
    let mut p = any_page();
    let before = p.storage;
    let first: u32 = kani::any();
    let last: u32 = kani::any();
    kani::assume(first < 512 && last < 512 && first <= last);
    let probe: u32 = kani::any();
    kani::assume(probe < 512);
    p.remove_range(first, last);
    assert!(p.contains(probe) == (member(&before, probe) && !(first <= probe && probe <= last)));
    assert!(p.len() == popcount(&p.storage));
    p.clear();
    assert!(p.len() == 0 && p.is_empty() && !p.contains(probe));
    kani::cover!(first / 64 < last / 64, "range spans words");
}

#[cfg_attr(kani, kani::proof)]
#[cfg_attr(kani, kani::unwind(66))]
pub fn c14_page_set_algebra() {
    let a = any_page();
    let b = any_page();
    let probe: u32 = kani::any();
    kani::assume(probe < 512);
    let (ma, mb) = (member(&a.storage, probe), member(&b.storage, probe));
    let u = BitPage::union(&a, &b);
    let i = BitPage::intersect(&a, &b);
    let s = BitPage::subtract(&a, &b);
    assert!(u.contains(probe) == (ma || mb));
    assert!(i.contains(probe) == (ma && mb));
    assert!(s.contains(probe) == (ma && !mb));
    assert!(u.len() == popcount(&u.storage) && i.len() == popcount(&i.storage) && s.len() == popcount(&s.storage));
    // Eq / Hash inputs agree with set equality
    let mut same = true;
    let mut w = 0;
    while w < 8 {
        if a.storage[w] != b.storage[w] {
            same = false;
        }
        w += 1;
    }
    let eq = a == b; // the crate's PartialEq compares the 64 storage bytes (memcmp: unwind >= 65)
    assert!(eq == same);
    kani::cover!(ma && !mb, "probe in a only");
}

// @bound page with words 0, 1, 7 symbolic (others zero); first 3 items of iter(), last 2 of iter().rev(): ascending/descending, members only, no member skipped between consecutive items
// @tier thorough
// @timeout 3000
// @mem 24
#[cfg_attr(kani, kani::proof)]
#[cfg_attr(kani, kani::unwind(10))]
pub fn c14_page_iter_order_and_membership() {
    let p = sparse_page();
    let mut it = p.iter();
    let mut prev: Option<u32> = None;
    let mut n = 0;
    while n < 3 {
        let Some(x) = it.next() else { break };
        assert!(x < 512 && member(&p.storage, x));
        let lo = match prev { Some(q) => { assert!(x > q); q + 1 } None => 0 };
        // nothing between the previous item and this one is a member
        let g: u32 = kani::any();
        kani::assume(g >= lo && g < x);
        assert!(!member(&p.storage, g));
        prev = Some(x);
        n += 1;
    }
    if n < 3 {
        // iterator ended: no member after the last item
        let g: u32 = kani::any();
        kani::assume(g < 512 && prev.map(|q| g > q).unwrap_or(true));
        assert!(!member(&p.storage, g));
    }
    let mut rit = p.iter().rev();
    if let Some(x) = rit.next() {
        assert!(member(&p.storage, x));
        let g: u32 = kani::any();
        kani::assume(g > x && g < 512);
        assert!(!member(&p.storage, g));
        if let Some(y) = rit.next() {
            assert!(y < x && member(&p.storage, y));
        }
    }
    kani::cover!(n == 3, "three members");
}

// @bound page with words 0, 1, 7 symbolic: the first item of iter() is the smallest member, the first item of iter().rev() the largest
#[cfg_attr(kani, kani::proof)]
#[cfg_attr(kani, kani::unwind(10))]
pub fn c14_page_iter_first_and_last() {
    let p = sparse_page();
    match p.iter().next() {
        Some(x) => {
            assert!(x < 512 && member(&p.storage, x));
            let g: u32 = kani::any();
            kani::assume(g < x);
            assert!(!member(&p.storage, g));
        }
        None => {
            let g: u32 = kani::any();
            kani::assume(g < 512);
            assert!(!member(&p.storage, g));
        }
    }
    let last = p.iter().next_back();
    if let Some(x) = last {
        assert!(x < 512 && member(&p.storage, x));
        let g: u32 = kani::any();
        kani::assume(g > x && g < 512);
        assert!(!member(&p.storage, g));
        kani::cover!(x > 448, "largest member in the last word");
    }
}

// @timeout 900
#[cfg_attr(kani, kani::proof)]
#[cfg_attr(kani, kani::unwind(10))]
pub fn c14_page_iter_after() {
    let p = sparse_page();
    let v: u32 = kani::any();
    kani::assume(v < 512);
    let mut it = p.iter_after(v);
    match it.next() {
        Some(x) => {
            assert!(x > v && x < 512 && member(&p.storage, x));
            let g: u32 = kani::any();
            kani::assume(g > v && g < x);
            assert!(!member(&p.storage, g));
            kani::cover!(x > v + 70, "next member two words later");
        }
        None => {
            let g: u32 = kani::any();
            kani::assume(g > v && g < 512);
            assert!(!member(&p.storage, g));
        }
    }
}

// @bound page with words 0, 1, 7 symbolic (others zero); first 2 ranges of iter_ranges(): maximal runs of members, ascending, non-adjacent
// @timeout 900
#[cfg_attr(kani, kani::proof)]
#[cfg_attr(kani, kani::unwind(12))]
pub fn c14_page_iter_ranges() {
    let p = sparse_page();
    let mut it = p.iter_ranges();
    let mut prev_end: Option<u32> = None;
    let mut n = 0;
    while n < 2 {
        let Some(r) = it.next() else { break };
        let (s, e) = (*r.start(), *r.end());
        assert!(s <= e && e < 512);
        let g: u32 = kani::any();
        kani::assume(g >= s && g <= e);
        assert!(member(&p.storage, g));
        // maximal: neighbours outside are not members
        if s > 0 {
            assert!(!member(&p.storage, s - 1));
        }
        if e < 511 {
            assert!(!member(&p.storage, e + 1));
        }
        let lo = match prev_end { Some(q) => { assert!(s > q + 1); q + 1 } None => 0 };
        let h: u32 = kani::any();
        kani::assume(h >= lo && h < s);
        assert!(!member(&p.storage, h));
        prev_end = Some(e);
        n += 1;
    }
    kani::cover!(n == 2, "two ranges");
    kani::cover!(n >= 1 && prev_end.is_some(), "one range");
}

#[cfg(all(test, not(kani)))]
include!("bitpage_dispatch.rs");

#[cfg(all(test, not(kani)))]
#[test]
fn verif_replay() {
    let Ok(path) = std::env::var("VERIF_REPLAY_FILE") else {
        return;
    };
    let (name, vals) = kani::read_replay_file(&path);
    if let Some(f) = verif_dispatch(&name) {
        kani::load(vals);
        f();
        println!("VERIF-REPLAY-COMPLETED");
    }
}
