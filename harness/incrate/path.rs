//! C12 (path well-formedness): skrifa's point-stream -> path conversion against the grammar
//! (MoveTo Segment* Close)*. Pulled into skrifa/src/outline/path.rs as
//! `mod verif_harness`.
//!
//! @assume coordinates are i32 font units (Point<i32>, the unscaled path; the scaled paths run the same code on F26Dot6/Fixed)
//! @bound symbolic coordinates, symbolic on/off/cubic flags, both PathStyles; sizes per harness
#![allow(unused, clippy::all)]

#[cfg(not(kani))]
#[path = "/verif/harness/shim/shim.rs"]
mod kani;

use super::*;

#[derive(Default)]
struct GrammarPen {
    open: bool,
    moves: u32,
    closes: u32,
    segments: u32,
    bad: bool,
    non_finite: bool,
}

impl GrammarPen {
    // coordinates are i32 -> f32 casts, which are always finite; checking them would put the
    // floating-point casts into the SAT query (measured: > 300 s instead of seconds), so only the
    // command grammar is checked
    fn coords(&mut self, _c: &[f32]) {}
}

impl OutlinePen for GrammarPen {
    fn move_to(&mut self, x: f32, y: f32) {
        if self.open {
            self.bad = true;
        }
        self.open = true;
        self.moves += 1;
        self.coords(&[x, y]);
    }
    fn line_to(&mut self, x: f32, y: f32) {
        if !self.open {
            self.bad = true;
        }
        self.segments += 1;
        self.coords(&[x, y]);
    }
    fn quad_to(&mut self, cx0: f32, cy0: f32, x: f32, y: f32) {
        if !self.open {
            self.bad = true;
        }
        self.segments += 1;
        self.coords(&[cx0, cy0, x, y]);
    }
    fn curve_to(&mut self, cx0: f32, cy0: f32, cx1: f32, cy1: f32, x: f32, y: f32) {
        if !self.open {
            self.bad = true;
        }
        self.segments += 1;
        self.coords(&[cx0, cy0, cx1, cy1, x, y]);
    }
    fn close(&mut self) {
        if !self.open {
            self.bad = true;
        }
        self.open = false;
        self.closes += 1;
    }
}

/// Fixed-size variant: exactly 3 points and 1 contour entry (slices of concrete length), the
/// contour end point, all coordinates and all flags symbolic.
fn check_3_points(style: PathStyle) {
    let points: [Point<i32>; 3] =
        [Point::new(kani::any(), kani::any()), Point::new(kani::any(), kani::any()), Point::new(kani::any(), kani::any())];
    let flags: [PointFlags; 3] =
        [PointFlags::from_bits(kani::any()), PointFlags::from_bits(kani::any()), PointFlags::from_bits(kani::any())];
    let contours: [u16; 1] = [kani::any()];
    let mut pen = GrammarPen::default();
    let r = to_path(&points, &flags, &contours, style, &mut pen);
    if r.is_ok() {
        assert!(!pen.bad);
        assert!(!pen.open);
        assert!(pen.moves == pen.closes);
        assert!(pen.moves <= 1);
        assert!(!pen.non_finite);
        if pen.segments > 0 {
            assert!(pen.moves > 0);
        }
        kani::cover!(pen.moves == 1 && pen.segments >= 2, "a contour with at least two segments");
    }
    kani::cover!(r.is_err(), "malformed outline rejected");
}

// @bound exactly 3 points, one contour entry with a symbolic end point, symbolic coordinates and flags; unwind 5
// @timeout 420
#[cfg_attr(kani, kani::proof)]
#[cfg_attr(kani, kani::unwind(5))]
pub fn c12_to_path_well_formed_freetype_style() {
    check_3_points(PathStyle::FreeType);
}

// @bound exactly 3 points, one contour entry with a symbolic end point, symbolic coordinates and flags; unwind 5
// @timeout 420
#[cfg_attr(kani, kani::proof)]
#[cfg_attr(kani, kani::unwind(5))]
pub fn c12_to_path_well_formed_harfbuzz_style() {
    check_3_points(PathStyle::HarfBuzz);
}

/// Fixed-size variant: exactly 4 points and 2 contour entries.
fn check_4_points_2_contours(style: PathStyle) {
    let points: [Point<i32>; 4] = [
        Point::new(kani::any(), kani::any()),
        Point::new(kani::any(), kani::any()),
        Point::new(kani::any(), kani::any()),
        Point::new(kani::any(), kani::any()),
    ];
    let flags: [PointFlags; 4] = [
        PointFlags::from_bits(kani::any()),
        PointFlags::from_bits(kani::any()),
        PointFlags::from_bits(kani::any()),
        PointFlags::from_bits(kani::any()),
    ];
    let contours: [u16; 2] = [kani::any(), kani::any()];
    let mut pen = GrammarPen::default();
    let r = to_path(&points, &flags, &contours, style, &mut pen);
    if r.is_ok() {
        assert!(!pen.bad);
        assert!(!pen.open);
        assert!(pen.moves == pen.closes);
        assert!(pen.moves <= 2);
        assert!(!pen.non_finite);
        if pen.segments > 0 {
            assert!(pen.moves > 0);
        }
        kani::cover!(pen.moves == 2, "two contours drawn");
    }
    kani::cover!(r.is_err(), "malformed outline rejected");
}

// @bound exactly 4 points, two contour entries with symbolic end points, symbolic coordinates and flags; unwind 6
// @timeout 420
#[cfg_attr(kani, kani::proof)]
#[cfg_attr(kani, kani::unwind(6))]
pub fn c12_to_path_well_formed_two_contours_freetype_style() {
    check_4_points_2_contours(PathStyle::FreeType);
}

// @bound exactly 4 points, two contour entries with symbolic end points, symbolic coordinates and flags; unwind 6
// @timeout 420
#[cfg_attr(kani, kani::proof)]
#[cfg_attr(kani, kani::unwind(6))]
pub fn c12_to_path_well_formed_two_contours_harfbuzz_style() {
    check_4_points_2_contours(PathStyle::HarfBuzz);
}

/// Fixed-size variant: exactly 6 points and 2 contour entries.
fn check_6_points_2_contours(style: PathStyle) {
    let points: [Point<i32>; 6] = [
        Point::new(kani::any(), kani::any()),
        Point::new(kani::any(), kani::any()),
        Point::new(kani::any(), kani::any()),
        Point::new(kani::any(), kani::any()),
        Point::new(kani::any(), kani::any()),
        Point::new(kani::any(), kani::any()),
    ];
    let flags: [PointFlags; 6] = [
        PointFlags::from_bits(kani::any()),
        PointFlags::from_bits(kani::any()),
        PointFlags::from_bits(kani::any()),
        PointFlags::from_bits(kani::any()),
        PointFlags::from_bits(kani::any()),
        PointFlags::from_bits(kani::any()),
    ];
    let contours: [u16; 2] = [kani::any(), kani::any()];
    let mut pen = GrammarPen::default();
    let r = to_path(&points, &flags, &contours, style, &mut pen);
    if r.is_ok() {
        assert!(!pen.bad);
        assert!(!pen.open);
        assert!(pen.moves == pen.closes);
        assert!(pen.moves <= 2);
        assert!(!pen.non_finite);
        if pen.segments > 0 {
            assert!(pen.moves > 0);
        }
        kani::cover!(pen.moves == 2, "two contours drawn");
    }
    kani::cover!(r.is_err(), "malformed outline rejected");
}

// @bound exactly 6 points, two contour entries with symbolic end points, symbolic coordinates and flags; unwind 8
// @timeout 420
// @mem 16
#[cfg_attr(kani, kani::proof)]
#[cfg_attr(kani, kani::unwind(8))]
pub fn c12_to_path_well_formed_6_points_freetype_style() {
    check_6_points_2_contours(PathStyle::FreeType);
}

// @bound exactly 6 points, two contour entries with symbolic end points, symbolic coordinates and flags; unwind 8
// @timeout 420
// @mem 16
#[cfg_attr(kani, kani::proof)]
#[cfg_attr(kani, kani::unwind(8))]
pub fn c12_to_path_well_formed_6_points_harfbuzz_style() {
    check_6_points_2_contours(PathStyle::HarfBuzz);
}

#[cfg(all(test, not(kani)))]
include!("path_dispatch.rs");

#[cfg(all(test, not(kani)))]
#[test]
fn verif_replay() {
    let Ok(path) = std::env::var("VERIF_REPLAY_FILE") else {
        return;
    };
    let (name, vals) = kani::read_replay_file(&path);
    if let Some(f) = verif_dispatch(&name) {
        kani::load(vals);
        f();
        println!("VERIF-REPLAY-COMPLETED");
    }
}
