// Native stand-in for the parts of the `kani` API the harnesses use, so that the very same
// harness function can be re-executed on the repository's ordinary toolchain with the concrete
// values the solver returned (dev profile and --release). Included with #[path] as `mod kani`
// when not compiling under Kani.  One Vec<u8> is consumed per primitive `any()` in call order,
// exactly as Kani's own concrete playback does (little-endian, one entry per array element).
#![allow(dead_code, unused_macros)]
use std::cell::RefCell;
use std::collections::VecDeque;

thread_local! {
    static QUEUE: RefCell<VecDeque<Vec<u8>>> = RefCell::new(VecDeque::new());
}

pub const DIVERGED: &str = "VERIF-REPLAY-DIVERGED";

pub fn load(vals: Vec<Vec<u8>>) {
    QUEUE.with(|q| *q.borrow_mut() = vals.into());
}

fn pop(n: usize) -> Vec<u8> {
    // The values are consumed as one byte stream in call order: Kani's playback lists one entry per
    // primitive any(), a trace taken from CBMC directly may report a whole array or struct as one
    // entry. Bytes the solver did not have to fix (sliced away, or past the end) replay as zero.
    QUEUE.with(|q| {
        let mut q = q.borrow_mut();
        let mut out = Vec::with_capacity(n);
        while out.len() < n {
            match q.pop_front() {
                Some(mut v) => {
                    let need = n - out.len();
                    if v.len() > need {
                        let rest = v.split_off(need);
                        q.push_front(rest);
                    }
                    out.extend_from_slice(&v);
                }
                None => out.resize(n, 0),
            }
        }
        out
    })
}

pub trait Arbitrary: Sized {
    fn any() -> Self;
}

macro_rules! prim {
    ($($t:ty),*) => {$(
        impl Arbitrary for $t {
            fn any() -> Self {
                let v = pop(std::mem::size_of::<$t>());
                <$t>::from_le_bytes(v.try_into().unwrap())
            }
        }
    )*};
}
prim!(u8, i8, u16, i16, u32, i32, u64, i64, u128, i128, usize, isize, f32, f64);

impl Arbitrary for bool {
    fn any() -> Self {
        pop(1)[0] & 1 == 1
    }
}

impl Arbitrary for char {
    fn any() -> Self {
        let v = u32::any();
        match char::from_u32(v) {
            Some(c) => c,
            None => panic!("{DIVERGED}: invalid char"),
        }
    }
}

impl<T: Arbitrary, const N: usize> Arbitrary for [T; N] {
    fn any() -> Self {
        std::array::from_fn(|_| T::any())
    }
}

impl<T: Arbitrary> Arbitrary for Option<T> {
    fn any() -> Self {
        if bool::any() {
            Some(T::any())
        } else {
            None
        }
    }
}

impl<A: Arbitrary, B: Arbitrary> Arbitrary for (A, B) {
    fn any() -> Self {
        let a = A::any();
        let b = B::any();
        (a, b)
    }
}

impl<A: Arbitrary, B: Arbitrary, C: Arbitrary> Arbitrary for (A, B, C) {
    fn any() -> Self {
        let a = A::any();
        let b = B::any();
        let c = C::any();
        (a, b, c)
    }
}

pub fn any<T: Arbitrary>() -> T {
    T::any()
}

pub fn any_where<T: Arbitrary, F: FnOnce(&T) -> bool>(f: F) -> T {
    let v = T::any();
    assume(f(&v));
    v
}

pub fn assume(cond: bool) {
    if !cond {
        panic!("{DIVERGED}: assumption false on replay");
    }
}

macro_rules! cover {
    ($($t:tt)*) => {{}};
}
pub(crate) use cover;

/// Read a replay file: first line = harness name, following lines = hex bytes of each value
/// (an empty line is an empty value).
pub fn read_replay_file(path: &str) -> (String, Vec<Vec<u8>>) {
    let s = std::fs::read_to_string(path).expect("replay file");
    let mut lines = s.lines();
    let name = lines.next().expect("harness name").trim().to_string();
    let vals = lines
        .filter(|l| !l.starts_with('#'))
        .map(|l| {
            let l = l.trim();
            (0..l.len() / 2)
                .map(|i| u8::from_str_radix(&l[2 * i..2 * i + 2], 16).expect("hex"))
                .collect()
        })
        .collect();
    (name, vals)
}
