//! Fixed-point arithmetic against exact-integer reference models (C15) — Kani side.
//! Full-width 64-bit-division kernels (Div, mul_div) are decided at full width by the
//! MIR->SMT engine (E2); here they are decided on operand slices CBMC can bit-blast.
use font_types::*;
#[cfg(not(kani))]
use crate::kani;

/// exact x / 2^k rounded half away from zero (x: i128)
fn round_shift_haz(x: i128, k: u32) -> i128 {
    let half = 1i128 << (k - 1);
    if x >= 0 {
        (x + half) >> k
    } else {
        -((-x + half) >> k)
    }
}

/// `Fixed * Fixed` = exact product / 2^16 rounded half away from zero, whenever representable.
/// Full width (all 2^64 operand pairs).
#[cfg_attr(kani, kani::proof)]
pub fn c15_arith_fixed_mul() {
    let a: i32 = kani::any();
    let b: i32 = kani::any();
    let r = Fixed::from_bits(a) * Fixed::from_bits(b);
    let exp = round_shift_haz(a as i128 * b as i128, 16);
    if exp >= i32::MIN as i128 && exp <= i32::MAX as i128 {
        assert!(r.to_bits() as i128 == exp);
    }
    let mut m = Fixed::from_bits(a);
    m *= Fixed::from_bits(b);
    assert!(m == r);
    kani::cover!(exp > i32::MAX as i128, "unrepresentable product exists");
    kani::cover!(a < 0 && b > 0 && (a as i128 * b as i128) & 0xFFFF == 0x8000, "negative tie");
}

/// F26Dot6's operator is the same raw-bit kernel (FT_MulFix: 26.6 x 16.16 -> 26.6).
#[cfg_attr(kani, kani::proof)]
pub fn c15_arith_f26dot6_mul() {
    let a: i32 = kani::any();
    let b: i32 = kani::any();
    let r = F26Dot6::from_bits(a) * F26Dot6::from_bits(b);
    let exp = round_shift_haz(a as i128 * b as i128, 16);
    if exp >= i32::MIN as i128 && exp <= i32::MAX as i128 {
        assert!(r.to_bits() as i128 == exp);
    }
    kani::cover!(true, "reached");
}

/// Spec for division: q is the exact quotient n/d rounded half away from zero
/// <=> 2|n| - |d| < 2|q||d| <= 2|n| + |d| and sign(q) = sign(n)*sign(d) (or q == 0).
/// (no division in the model: a symbolic 128-bit divide is far more expensive for the SAT back
/// end than the multiplication below). Callers keep |n| < 2^62, |d| <= 2^31, |q| <= 2^31.
fn is_rounded_quotient(n: i64, d: i64, q: i64) -> bool {
    let (an, ad, aq) = (n.unsigned_abs(), d.unsigned_abs(), q.unsigned_abs());
    let sign_ok = q == 0 || ((q < 0) == ((n < 0) != (d < 0)));
    // 2|n| - |d| < 2|q||d| <= 2|n| + |d|
    sign_ok && 2 * aq * ad + ad > 2 * an && 2 * aq * ad <= 2 * an + ad
}

/// the exact rounded quotient has magnitude <= i32::MAX  <=>  2|n| + |d| < 2 * 2^31 * |d|
fn quotient_fits(n: i64, d: i64) -> bool {
    let (an, ad) = (n.unsigned_abs(), d.unsigned_abs());
    2 * an + ad < (ad << 32)
}

macro_rules! div_slice {
    ($name:ident, $t:ident, $abits:literal, $bbits:literal) => {
        /// `a / b` == exact (a * 2^16) / b rounded half away from zero whenever representable;
        /// b == 0 saturates to +-0x7FFFFFFF. Operand slice: |a| < 2^$abits, |b| < 2^$bbits.
        #[cfg_attr(kani, kani::proof)]
        pub fn $name() {
            let a: i32 = kani::any();
            let b: i32 = kani::any();
            kani::assume((a as i64).abs() < (1i64 << $abits));
            kani::assume((b as i64).abs() < (1i64 << $bbits));
            let r = ($t::from_bits(a) / $t::from_bits(b)).to_bits();
            if b == 0 {
                assert!(r == if a < 0 { -0x7FFF_FFFF } else { 0x7FFF_FFFF });
            } else {
                // representable <=> |exact| rounds to <= i32::MAX, i.e. 2|n| + |d| < 2 * 2^31 * |d| (+1 for MIN: ignored, conservative)
                let n = (a as i64) << 16;
                if quotient_fits(n, b as i64) {
                    assert!(is_rounded_quotient(n, b as i64, r as i64));
                }
            }
            kani::cover!(b != 0 && a < 0 && b > 0, "negative quotient");
            kani::cover!(b == 0, "division by zero");
        }
    };
}
div_slice!(c15_arith_fixed_div_a12_b12, Fixed, 12, 12);
div_slice!(c15_arith_fixed_div_a16_b16, Fixed, 16, 16);
// @tier thorough
// @timeout 3000
div_slice!(c15_arith_fixed_div_a20_b20, Fixed, 20, 20);
// @tier thorough
// @timeout 3000
div_slice!(c15_arith_fixed_div_a32_b10, Fixed, 32, 10);
div_slice!(c15_arith_f26dot6_div_a10_b10, F26Dot6, 10, 10);

/// `/=` is `/` (two symbolic dividers are only compared on a 6-bit slice: equivalence of two
/// dividers is the expensive part for SAT, and DivAssign is a one-line forwarder).
#[cfg_attr(kani, kani::proof)]
pub fn c15_arith_div_assign() {
    let a: i32 = kani::any();
    let b: i32 = kani::any();
    kani::assume(a.unsigned_abs() < 64 && b.unsigned_abs() < 64);
    let mut m = Fixed::from_bits(a);
    m /= Fixed::from_bits(b);
    assert!(m == Fixed::from_bits(a) / Fixed::from_bits(b));
    kani::cover!(b != 0, "reached");
}

/// Division never panics and b == 0 saturates, at full width (no quotient model needed).
#[cfg_attr(kani, kani::proof)]
pub fn c15_arith_fixed_div_total() {
    let a: i32 = kani::any();
    let b: i32 = kani::any();
    let r = (Fixed::from_bits(a) / Fixed::from_bits(b)).to_bits();
    if b == 0 {
        assert!(r == if a < 0 { -0x7FFF_FFFF } else { 0x7FFF_FFFF });
    }
    let r2 = (F26Dot6::from_bits(a) / F26Dot6::from_bits(b)).to_bits();
    if b == 0 {
        assert!(r2 == r);
    }
    kani::cover!(a == i32::MIN, "a = MIN reachable");
    kani::cover!(b == i32::MIN, "b = MIN reachable");
}

macro_rules! mul_div_slice {
    ($name:ident, $t:ident, $sbits:literal, $abits:literal, $bbits:literal) => {
        /// `s.mul_div(a, b)` == exact s*a/b rounded half away from zero whenever representable;
        /// b == 0 saturates to +-0x7FFFFFFF.
        #[cfg_attr(kani, kani::proof)]
        pub fn $name() {
            let s: i32 = kani::any();
            let a: i32 = kani::any();
            let b: i32 = kani::any();
            kani::assume((s as i64).abs() < (1i64 << $sbits));
            kani::assume((a as i64).abs() < (1i64 << $abits));
            kani::assume((b as i64).abs() < (1i64 << $bbits));
            let r = $t::from_bits(s).mul_div($t::from_bits(a), $t::from_bits(b)).to_bits();
            if b == 0 {
                assert!(r == if (s < 0) != (a < 0) { -0x7FFF_FFFF } else { 0x7FFF_FFFF });
            } else {
                let n = s as i64 * a as i64;
                if quotient_fits(n, b as i64) {
                    assert!(is_rounded_quotient(n, b as i64, r as i64));
                }
            }
            kani::cover!(b != 0 && s < 0 && a > 0 && b > 0, "negative result");
        }
    };
}
mul_div_slice!(c15_arith_fixed_mul_div_12_12_12, Fixed, 12, 12, 12);
// @tier thorough
// @timeout 3000
mul_div_slice!(c15_arith_fixed_mul_div_32_4_8, Fixed, 32, 4, 8);
// @tier thorough
// @timeout 3000
mul_div_slice!(c15_arith_fixed_mul_div_16_16_16, Fixed, 16, 16, 16);
mul_div_slice!(c15_arith_f26dot6_mul_div_10_10_10, F26Dot6, 10, 10, 10);

/// mul_div never panics at full width; b == 0 saturates.
#[cfg_attr(kani, kani::proof)]
pub fn c15_arith_mul_div_total() {
    let s: i32 = kani::any();
    let a: i32 = kani::any();
    let b: i32 = kani::any();
    let r = Fixed::from_bits(s).mul_div(Fixed::from_bits(a), Fixed::from_bits(b)).to_bits();
    if b == 0 {
        assert!(r == if (s < 0) != (a < 0) { -0x7FFF_FFFF } else { 0x7FFF_FFFF });
    }
    let r2 = F26Dot6::from_bits(s).mul_div(F26Dot6::from_bits(a), F26Dot6::from_bits(b)).to_bits();
    if b == 0 {
        assert!(r2 == r);
    }
    kani::cover!(s == i32::MIN && a == i32::MIN, "MIN operands reachable");
}

/// Add/Sub wrap; wrapping_/saturating_/checked_ variants; round/floor/fract/abs definitions.
#[cfg_attr(kani, kani::proof)]
pub fn c15_arith_add_sub_round() {
    let a: i32 = kani::any();
    let b: i32 = kani::any();
    let (fa, fb) = (Fixed::from_bits(a), Fixed::from_bits(b));
    assert!((fa + fb).to_bits() == a.wrapping_add(b));
    assert!((fa - fb).to_bits() == a.wrapping_sub(b));
    assert!(fa.wrapping_add(fb).to_bits() == a.wrapping_add(b));
    assert!(fa.wrapping_sub(fb).to_bits() == a.wrapping_sub(b));
    assert!(fa.saturating_add(fb).to_bits() == a.saturating_add(b));
    assert!(fa.saturating_sub(fb).to_bits() == a.saturating_sub(b));
    assert!(fa.checked_add(fb).map(|x| x.to_bits()) == a.checked_add(b));
    let mut m = fa;
    m += fb;
    assert!(m == fa + fb);
    m -= fb;
    assert!(m == fa);
    // floor: largest multiple of 1.0 <= a
    let fl = fa.floor().to_bits();
    assert!(fl & 0xFFFF == 0 && fl <= a && (a as i64) - (fl as i64) < 0x10000);
    // fract = a - floor(a), in [0, 1)
    let fr = fa.fract().to_bits();
    assert!(fr >= 0 && fr < 0x10000 && fl.wrapping_add(fr) == a);
    // round: nearest multiple of 1.0, ties up, wrapping at the top of the range
    let rd = fa.round().to_bits();
    assert!(rd & 0xFFFF == 0);
    if a <= i32::MAX - 0x8000 {
        let d = rd as i64 - a as i64;
        assert!(d > -0x8000 && d <= 0x8000);
    }
    let (ga, gb) = (F26Dot6::from_bits(a), F26Dot6::from_bits(b));
    assert!((ga + gb).to_bits() == a.wrapping_add(b));
    assert!((ga - gb).to_bits() == a.wrapping_sub(b));
    let gfl = ga.floor().to_bits();
    assert!(gfl & 63 == 0 && gfl <= a && (a as i64) - (gfl as i64) < 64);
    let grd = ga.round().to_bits();
    if a <= i32::MAX - 32 {
        let d = grd as i64 - a as i64;
        assert!(grd & 63 == 0 && d > -32 && d <= 32);
    }
    let c: i16 = kani::any();
    let d: i16 = kani::any();
    assert!((F2Dot14::from_bits(c) + F2Dot14::from_bits(d)).to_bits() == c.wrapping_add(d));
    assert!((F2Dot14::from_bits(c) - F2Dot14::from_bits(d)).to_bits() == c.wrapping_sub(d));
    kani::cover!(a < 0 && a & 0xFFFF == 0x8000, "negative tie for round");
}

/// `abs` and `Neg` on every value *except* the minimum are exact; the minimum is the one
/// value whose negation is not representable (reported under C20, not judged here).
#[cfg_attr(kani, kani::proof)]
pub fn c15_arith_neg_abs() {
    let a: i32 = kani::any();
    kani::assume(a != i32::MIN);
    assert!((-Fixed::from_bits(a)).to_bits() == -a);
    assert!(Fixed::from_bits(a).abs().to_bits() == if a < 0 { -a } else { a });
    assert!((-F26Dot6::from_bits(a)).to_bits() == -a);
    assert!(F26Dot6::from_bits(a).abs().to_bits() == if a < 0 { -a } else { a });
    kani::cover!(a < 0, "negative");
}
