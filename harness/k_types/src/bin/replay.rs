fn main() {
    let path = std::env::args().nth(1).expect("replay file");
    let (name, vals) = k_types::kani::read_replay_file(&path);
    k_types::kani::load(vals);
    match k_types::dispatch(&name) {
        Some(f) => f(),
        None => panic!("VERIF-REPLAY-DIVERGED: unknown harness {name}"),
    }
    println!("VERIF-REPLAY-COMPLETED");
}
