//! Native evaluation of the E2 target functions on concrete inputs (translator validation and
//! counterexample replay). stdin: one "<target id> <args...>" per line; stdout: "<line> = <result>"
//! or "<line> = panic: <message>".
use font_types::*;
use std::io::BufRead;

fn eval(id: &str, a: &[i64]) -> Option<i64> {
    let x = |i: usize| a[i] as i32;
    Some(match id {
        "Fixed::mul" => (Fixed::from_bits(x(0)) * Fixed::from_bits(x(1))).to_bits() as i64,
        "Fixed::div" => (Fixed::from_bits(x(0)) / Fixed::from_bits(x(1))).to_bits() as i64,
        "Fixed::mul_div" => Fixed::from_bits(x(0)).mul_div(Fixed::from_bits(x(1)), Fixed::from_bits(x(2))).to_bits() as i64,
        "F26Dot6::mul" => (F26Dot6::from_bits(x(0)) * F26Dot6::from_bits(x(1))).to_bits() as i64,
        "F26Dot6::div" => (F26Dot6::from_bits(x(0)) / F26Dot6::from_bits(x(1))).to_bits() as i64,
        "F26Dot6::mul_div" => F26Dot6::from_bits(x(0)).mul_div(F26Dot6::from_bits(x(1)), F26Dot6::from_bits(x(2))).to_bits() as i64,
        "Fixed::to_i32" => Fixed::from_bits(x(0)).to_i32() as i64,
        "Fixed::to_f26dot6" => Fixed::from_bits(x(0)).to_f26dot6().to_bits() as i64,
        "Fixed::to_f2dot14" => Fixed::from_bits(x(0)).to_f2dot14().to_bits() as i64,
        "F26Dot6::to_i32" => F26Dot6::from_bits(x(0)).to_i32() as i64,
        "F2Dot14::to_fixed" => F2Dot14::from_bits(a[0] as i16).to_fixed().to_bits() as i64,
        "Fixed::neg" => (-Fixed::from_bits(x(0))).to_bits() as i64,
        "Fixed::abs" => Fixed::from_bits(x(0)).abs().to_bits() as i64,
        "F26Dot6::neg" => (-F26Dot6::from_bits(x(0))).to_bits() as i64,
        "F26Dot6::abs" => F26Dot6::from_bits(x(0)).abs().to_bits() as i64,
        _ => return None,
    })
}

fn main() {
    std::panic::set_hook(Box::new(|_| {}));
    for line in std::io::stdin().lock().lines() {
        let line = line.unwrap();
        let mut it = line.split_whitespace();
        let Some(id) = it.next() else { continue };
        let args: Vec<i64> = it.map(|s| s.parse().unwrap()).collect();
        let id2 = id.to_string();
        let r = std::panic::catch_unwind(move || eval(&id2, &args));
        match r {
            Ok(Some(v)) => println!("{line} = {v}"),
            Ok(None) => println!("{line} = unknown-target"),
            Err(e) => {
                let msg = e.downcast_ref::<String>().cloned().or_else(|| e.downcast_ref::<&str>().map(|s| s.to_string())).unwrap_or_default();
                println!("{line} = panic: {msg}")
            }
        }
    }
}
