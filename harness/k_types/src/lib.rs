//! C15 (and the font-types part of C20): Kani harnesses over the real font-types crate.
//! Every harness also compiles natively against harness/shim/shim.rs for replay.
#![allow(unused, clippy::all)]
#[cfg(not(kani))]
#[path = "../../shim/shim.rs"]
pub mod kani;

pub mod c15_arith;
pub mod c15_conv;
pub mod c15_float;
pub mod c15_scalar;

#[cfg(not(kani))]
include!("dispatch.rs");
