//! Scalar <-> big-endian bytes, for every value and every byte pattern (full width).
use font_types::*;
#[cfg(not(kani))]
use crate::kani;

/// `from_raw(to_raw(v)) == v`, `to_raw(from_raw(b)) == b`, `read` succeeds iff the slice has
/// exactly RAW_BYTE_LEN bytes, BigEndian<T> get/set/be_bytes/from_slice agree.
macro_rules! scalar_rt {
    ($name:ident, $t:ty, $n:literal, $mk:expr, $val:expr) => {
        #[cfg_attr(kani, kani::proof)]
        #[cfg_attr(kani, kani::unwind(10))]
        pub fn $name() {
            // (a) every byte pattern
            let b: [u8; $n] = kani::any();
            let v = <$t as Scalar>::from_raw(b);
            let back = v.to_raw();
            let expect_bytes: [u8; $n] = $val(b);
            let mut i = 0;
            while i < $n {
                assert!(back[i] == expect_bytes[i]);
                i += 1;
            }
            // (b) every value
            let v2: $t = $mk;
            let raw = v2.to_raw();
            assert!(<$t as Scalar>::from_raw(raw) == v2);
            // (c) read: length discipline
            let len: usize = kani::any();
            kani::assume(len <= $n + 1);
            let buf: [u8; $n + 1] = kani::any();
            let r = <$t as Scalar>::read(&buf[..len]);
            assert!(r.is_some() == (len == $n));
            assert!(<$t as FixedSize>::RAW_BYTE_LEN == $n);
            if let Some(r) = r {
                let mut head = [0u8; $n];
                let mut i = 0;
                while i < $n {
                    head[i] = buf[i];
                    i += 1;
                }
                assert!(r == <$t as Scalar>::from_raw(head));
            }
            // (d) BigEndian wrapper
            let be = BigEndian::<$t>::from_slice(&buf[..len]);
            assert!(be.is_some() == (len == $n));
            let mut w = BigEndian::<$t>::new(b);
            assert!(w.get() == v);
            assert!(w == v);
            w.set(v2);
            assert!(w.get() == v2);
            let bb = w.be_bytes();
            assert!(bb.len() == $n);
            let mut i = 0;
            while i < $n {
                assert!(bb[i] == raw[i]);
                i += 1;
            }
            let w2: BigEndian<$t> = v2.into();
            assert!(w2 == w);
            kani::cover!(true, "reached");
        }
    };
}

fn id<const N: usize>(b: [u8; N]) -> [u8; N] {
    b
}

scalar_rt!(c15_scalar_u8, u8, 1, kani::any::<u8>(), id);
scalar_rt!(c15_scalar_i8, i8, 1, kani::any::<i8>(), id);
scalar_rt!(c15_scalar_u16, u16, 2, kani::any::<u16>(), id);
scalar_rt!(c15_scalar_i16, i16, 2, kani::any::<i16>(), id);
scalar_rt!(c15_scalar_u32, u32, 4, kani::any::<u32>(), id);
scalar_rt!(c15_scalar_i32, i32, 4, kani::any::<i32>(), id);
scalar_rt!(c15_scalar_i64, i64, 8, kani::any::<i64>(), id);
scalar_rt!(c15_scalar_uint24, Uint24, 3, Uint24::new(kani::any()), id);
scalar_rt!(c15_scalar_int24, Int24, 3, Int24::new(kani::any()), id);
scalar_rt!(c15_scalar_f2dot14, F2Dot14, 2, F2Dot14::from_bits(kani::any()), id);
scalar_rt!(c15_scalar_f4dot12, F4Dot12, 2, F4Dot12::from_bits(kani::any()), id);
scalar_rt!(c15_scalar_f6dot10, F6Dot10, 2, F6Dot10::from_bits(kani::any()), id);
scalar_rt!(c15_scalar_fixed, Fixed, 4, Fixed::from_bits(kani::any()), id);
scalar_rt!(c15_scalar_fword, FWord, 2, FWord::new(kani::any()), id);
scalar_rt!(c15_scalar_ufword, UfWord, 2, UfWord::new(kani::any()), id);
scalar_rt!(c15_scalar_version16dot16, Version16Dot16, 4, <Version16Dot16 as Scalar>::from_raw(kani::any()), id);
scalar_rt!(c15_scalar_majorminor, MajorMinor, 4, MajorMinor::new(kani::any(), kani::any()), id);
scalar_rt!(c15_scalar_longdatetime, LongDateTime, 8, LongDateTime::new(kani::any()), id);
scalar_rt!(c15_scalar_tag, Tag, 4, Tag::from_be_bytes(kani::any()), id);
scalar_rt!(c15_scalar_glyphid16, GlyphId16, 2, GlyphId16::new(kani::any()), id);
scalar_rt!(c15_scalar_nameid, NameId, 2, NameId::new(kani::any()), id);
scalar_rt!(c15_scalar_offset16, Offset16, 2, Offset16::new(kani::any()), id);
scalar_rt!(c15_scalar_offset24, Offset24, 3, Offset24::new(Uint24::new(kani::any())), id);
scalar_rt!(c15_scalar_offset32, Offset32, 4, Offset32::new(kani::any()), id);
scalar_rt!(c15_scalar_nullable_offset16, Nullable<Offset16>, 2, <Nullable<Offset16> as Scalar>::from_raw(kani::any()), id);
scalar_rt!(c15_scalar_nullable_offset24, Nullable<Offset24>, 3, <Nullable<Offset24> as Scalar>::from_raw(kani::any()), id);
scalar_rt!(c15_scalar_nullable_offset32, Nullable<Offset32>, 4, <Nullable<Offset32> as Scalar>::from_raw(kani::any()), id);

/// Big-endian order: byte 0 is the most significant; numeric value equals the spec's reading.
#[cfg_attr(kani, kani::proof)]
pub fn c15_scalar_big_endian_order() {
    let b: [u8; 8] = kani::any();
    assert!(<u16 as Scalar>::from_raw([b[0], b[1]]) == ((b[0] as u16) << 8 | b[1] as u16));
    assert!(<i16 as Scalar>::from_raw([b[0], b[1]]) == ((b[0] as u16) << 8 | b[1] as u16) as i16);
    let u = (b[0] as u32) << 24 | (b[1] as u32) << 16 | (b[2] as u32) << 8 | b[3] as u32;
    assert!(<u32 as Scalar>::from_raw([b[0], b[1], b[2], b[3]]) == u);
    assert!(<i32 as Scalar>::from_raw([b[0], b[1], b[2], b[3]]) == u as i32);
    assert!(<Fixed as Scalar>::from_raw([b[0], b[1], b[2], b[3]]).to_bits() == u as i32);
    assert!(<Offset32 as Scalar>::from_raw([b[0], b[1], b[2], b[3]]).to_u32() == u);
    assert!(<Tag as Scalar>::from_raw([b[0], b[1], b[2], b[3]]).to_be_bytes() == [b[0], b[1], b[2], b[3]]);
    assert!(<Tag as Scalar>::from_raw([b[0], b[1], b[2], b[3]]) == Tag::from_u32(u));
    let u24 = (b[0] as u32) << 16 | (b[1] as u32) << 8 | b[2] as u32;
    assert!(<Uint24 as Scalar>::from_raw([b[0], b[1], b[2]]).to_u32() == u24);
    assert!(<Offset24 as Scalar>::from_raw([b[0], b[1], b[2]]).to_u32() == u24);
    let i24 = if u24 & 0x80_0000 != 0 { (u24 | 0xFF00_0000) as i32 } else { u24 as i32 };
    assert!(<Int24 as Scalar>::from_raw([b[0], b[1], b[2]]).to_i32() == i24);
    let u64v = ((u as u64) << 32)
        | (b[4] as u64) << 24 | (b[5] as u64) << 16 | (b[6] as u64) << 8 | b[7] as u64;
    assert!(<i64 as Scalar>::from_raw(b) == u64v as i64);
    assert!(<LongDateTime as Scalar>::from_raw(b).as_secs() == u64v as i64);
    assert!(<F2Dot14 as Scalar>::from_raw([b[0], b[1]]).to_bits() == ((b[0] as u16) << 8 | b[1] as u16) as i16);
    assert!(<FWord as Scalar>::from_raw([b[0], b[1]]).to_i16() == ((b[0] as u16) << 8 | b[1] as u16) as i16);
    assert!(<UfWord as Scalar>::from_raw([b[0], b[1]]).to_u16() == ((b[0] as u16) << 8 | b[1] as u16));
    assert!(<GlyphId16 as Scalar>::from_raw([b[0], b[1]]).to_u16() == ((b[0] as u16) << 8 | b[1] as u16));
    assert!(<NameId as Scalar>::from_raw([b[0], b[1]]).to_u16() == ((b[0] as u16) << 8 | b[1] as u16));
    assert!(<Offset16 as Scalar>::from_raw([b[0], b[1]]).to_u32() == ((b[0] as u32) << 8 | b[1] as u32));
    let mm = <MajorMinor as Scalar>::from_raw([b[0], b[1], b[2], b[3]]);
    assert!(mm.major == ((b[0] as u16) << 8 | b[1] as u16) && mm.minor == ((b[2] as u16) << 8 | b[3] as u16));
    let v = <Version16Dot16 as Scalar>::from_raw([b[0], b[1], b[2], b[3]]);
    let (maj, min) = v.to_major_minor();
    assert!(maj == (u >> 16) as u16 && min == ((u >> 12) & 0xF) as u16);
    kani::cover!(true, "reached");
}

/// 24-bit types saturate on construction; checked_new is None exactly outside the range.
#[cfg_attr(kani, kani::proof)]
pub fn c15_scalar_24bit_saturate() {
    let a: i32 = kani::any();
    let r = Int24::new(a).to_i32();
    let exp = if a > 0x7F_FFFF { 0x7F_FFFF } else if a < -0x80_0000 { -0x80_0000 } else { a };
    assert!(r == exp);
    assert!(Int24::checked_new(a).is_some() == (a >= -0x80_0000 && a <= 0x7F_FFFF));
    if let Some(c) = Int24::checked_new(a) {
        assert!(c.to_i32() == a);
    }
    let u: u32 = kani::any();
    let r = Uint24::new(u).to_u32();
    assert!(r == if u > 0xFF_FFFF { 0xFF_FFFF } else { u });
    assert!(Uint24::checked_new(u).is_some() == (u <= 0xFF_FFFF));
    if let Some(c) = Uint24::checked_new(u) {
        assert!(c.to_u32() == u);
    }
    // to_be_bytes: the three low-order bytes, most significant first
    let i = Int24::new(a);
    let bytes = i.to_be_bytes();
    assert!(bytes == [(exp >> 16) as u8, (exp >> 8) as u8, exp as u8]);
    assert!(Int24::from_be_bytes(bytes) == i);
    kani::cover!(a > 0x7F_FFFF, "int24 saturates high");
    kani::cover!(a < -0x80_0000, "int24 saturates low");
    kani::cover!(u > 0xFF_FFFF, "uint24 saturates");
}

/// Ordering of values equals ordering of raw bits (signed types: as signed integers), and
/// BigEndian<T>'s ordering equals the ordering of the decoded values.
#[cfg_attr(kani, kani::proof)]
pub fn c15_scalar_ordering() {
    let a: i32 = kani::any();
    let b: i32 = kani::any();
    assert!(Fixed::from_bits(a).cmp(&Fixed::from_bits(b)) == a.cmp(&b));
    assert!(F26Dot6::from_bits(a).cmp(&F26Dot6::from_bits(b)) == a.cmp(&b));
    assert!(Fixed::from_bits(a).partial_cmp(&Fixed::from_bits(b)) == Some(a.cmp(&b)));
    assert!((Fixed::from_bits(a) == Fixed::from_bits(b)) == (a == b));
    let c: i16 = kani::any();
    let d: i16 = kani::any();
    assert!(F2Dot14::from_bits(c).cmp(&F2Dot14::from_bits(d)) == c.cmp(&d));
    assert!(F4Dot12::from_bits(c).cmp(&F4Dot12::from_bits(d)) == c.cmp(&d));
    assert!(F6Dot10::from_bits(c).cmp(&F6Dot10::from_bits(d)) == c.cmp(&d));
    assert!(FWord::new(c).cmp(&FWord::new(d)) == c.cmp(&d));
    assert!(UfWord::new(c as u16).cmp(&UfWord::new(d as u16)) == (c as u16).cmp(&(d as u16)));
    assert!(GlyphId16::new(c as u16).cmp(&GlyphId16::new(d as u16)) == (c as u16).cmp(&(d as u16)));
    assert!(Int24::new(a).cmp(&Int24::new(b)) == Int24::new(a).to_i32().cmp(&Int24::new(b).to_i32()));
    assert!(Uint24::new(a as u32).cmp(&Uint24::new(b as u32)) == Uint24::new(a as u32).to_u32().cmp(&Uint24::new(b as u32).to_u32()));
    assert!(Tag::from_u32(a as u32).cmp(&Tag::from_u32(b as u32)) == (a as u32).cmp(&(b as u32)));
    let ba = BigEndian::<Fixed>::new(a.to_be_bytes());
    let bb = BigEndian::<Fixed>::new(b.to_be_bytes());
    assert!(ba.cmp(&bb) == a.cmp(&b));
    assert!(ba.partial_cmp(&bb) == Some(a.cmp(&b)));
    let bc = BigEndian::<i16>::new(c.to_be_bytes());
    let bd = BigEndian::<i16>::new(d.to_be_bytes());
    assert!(bc.cmp(&bd) == c.cmp(&d));
    let uc = BigEndian::<u16>::new(c.to_be_bytes());
    let ud = BigEndian::<u16>::new(d.to_be_bytes());
    assert!(uc.cmp(&ud) == (c as u16).cmp(&(d as u16)));
    kani::cover!(a < 0 && b > 0, "mixed signs");
}

/// Version16Dot16::new / to_major_minor / Compatible.
#[cfg_attr(kani, kani::proof)]
pub fn c15_scalar_version() {
    let major: u16 = kani::any();
    let minor: u16 = kani::any();
    kani::assume(minor < 10);
    let v = Version16Dot16::new(major, minor);
    assert!(v.to_major_minor() == (major, minor));
    assert!(v.to_be_bytes() == [(major >> 8) as u8, major as u8, (minor << 4) as u8, 0]);
    let m2: u16 = kani::any();
    kani::assume(m2 < 10);
    let w = Version16Dot16::new(major, m2);
    assert!(v.compatible(w) == (minor >= m2));
    let a = MajorMinor::new(major, minor);
    let b = MajorMinor::new(kani::any(), kani::any());
    assert!(a.compatible(b) == (a.major == b.major && a.minor >= b.minor));
    kani::cover!(true, "reached");
}
