//! Float conversions (C15), decided by CBMC's bit-precise IEEE-754 model.
use font_types::*;
#[cfg(not(kani))]
use crate::kani;

macro_rules! rt16 {
    ($name:ident, $t:ident, $fract:literal) => {
        #[cfg_attr(kani, kani::proof)]
        pub fn $name() {
            let a: i16 = kani::any();
            let v = $t::from_bits(a);
            let f = v.to_f32();
            // exact value: a / 2^fract
            assert!(f == a as f32 / (1u32 << $fract) as f32);
            assert!($t::from_f32(f) == v);
            kani::cover!(a < 0, "negative");
        }
    };
}
rt16!(c15_float_f2dot14_roundtrip, F2Dot14, 14);
rt16!(c15_float_f4dot12_roundtrip, F4Dot12, 12);
rt16!(c15_float_f6dot10_roundtrip, F6Dot10, 10);

macro_rules! rt32 {
    ($name:ident, $t:ident, $fract:literal) => {
        #[cfg_attr(kani, kani::proof)]
        pub fn $name() {
            let a: i32 = kani::any();
            let v = $t::from_bits(a);
            let f = v.to_f64();
            assert!(f == a as f64 / (1u64 << $fract) as f64);
            assert!($t::from_f64(f) == v);
            kani::cover!(a < 0, "negative");
        }
    };
}
rt32!(c15_float_fixed_roundtrip, Fixed, 16);
rt32!(c15_float_f26dot6_roundtrip, F26Dot6, 6);

/// from_f64 rounds to nearest (ties away from zero) for finite in-range inputs:
/// |result - x * 2^16| <= 0.5.
#[cfg_attr(kani, kani::proof)]
pub fn c15_float_fixed_from_f64_nearest() {
    let x: f64 = kani::any();
    kani::assume(x.is_finite() && x > -32768.0 && x < 32767.99);
    let r = Fixed::from_f64(x).to_bits();
    let scaled = x * 65536.0; // exact: power-of-two scaling, no overflow/underflow to subnormal issue below
    let d = r as f64 - scaled;
    assert!(d >= -0.5 && d <= 0.5);
    // ties go away from zero
    if scaled == scaled.trunc() + 0.5 {
        assert!(r as f64 == scaled + 0.5);
    }
    if scaled == scaled.trunc() - 0.5 {
        assert!(r as f64 == scaled - 0.5);
    }
    kani::cover!(x < 0.0, "negative");
}

#[cfg_attr(kani, kani::proof)]
pub fn c15_float_f2dot14_from_f32_nearest() {
    let x: f32 = kani::any();
    kani::assume(x.is_finite() && x >= -2.0 && x < 1.9999);
    let r = F2Dot14::from_f32(x).to_bits();
    let scaled = x * 16384.0;
    let d = r as f32 - scaled;
    assert!(d >= -0.5 && d <= 0.5);
    kani::cover!(x < 0.0, "negative");
}

/// Lossy `to_f32` of 32-bit types is within one float ulp of the exact value (sanity).
#[cfg_attr(kani, kani::proof)]
pub fn c15_float_to_f32_lossy() {
    let a: i32 = kani::any();
    let f = Fixed::from_bits(a).to_f32();
    assert!(f == (a as f32) * (1.0 / 65536.0));
    let g = F26Dot6::from_bits(a).to_f32();
    assert!(g == (a as f32) * (1.0 / 64.0));
    kani::cover!(true, "reached");
}
