//! Conversions between fixed-point formats and integers (C15), all at full width.
use font_types::*;
#[cfg(not(kani))]
use crate::kani;

#[cfg_attr(kani, kani::proof)]
pub fn c15_conv_fixed() {
    let a: i32 = kani::any();
    let f = Fixed::from_bits(a);
    // to_f26dot6 = floor((x + 0x200) / 2^10)  (wrapping at the top 0x200 values)
    let exp = ((a as i64 + 0x200).div_euclid(1 << 10)) as i64;
    if a <= i32::MAX - 0x200 {
        assert!(f.to_f26dot6().to_bits() as i64 == exp);
    }
    // spec: "add 0x00000002, and sign-extend shift to the right by 2" then truncate to 16 bits
    let exp14 = (a as i64 + 2).div_euclid(4);
    if a <= i32::MAX - 2 && exp14 >= i16::MIN as i64 && exp14 <= i16::MAX as i64 {
        assert!(f.to_f2dot14().to_bits() as i64 == exp14);
    }
    // to_i32 = floor((x + 0x8000) / 2^16)
    let expi = (a as i64 + 0x8000).div_euclid(1 << 16);
    if a <= i32::MAX - 0x8000 {
        assert!(f.to_i32() as i64 == expi);
    }
    // from_i32 exact for 16-bit integers
    let i: i16 = kani::any();
    assert!(Fixed::from_i32(i as i32).to_bits() == (i as i32) * 65536);
    assert!(Fixed::from_i32(i as i32).to_i32() == i as i32);
    assert!(Fixed::from(i as i32) == Fixed::from_i32(i as i32));
    assert!(FWord::new(i).to_fixed().to_bits() == (i as i32) * 65536);
    assert!(UfWord::new(i as u16).to_fixed().to_bits() as i64 == (i as u16 as i64) * 65536 - if (i as u16) >= 0x8000 { 1i64 << 32 } else { 0 });
    // F2Dot14 -> Fixed is exact: value * 4
    assert!(F2Dot14::from_bits(i).to_fixed().to_bits() == (i as i32) * 4);
    assert!(F2Dot14::from_bits(i).to_fixed().to_f2dot14() == F2Dot14::from_bits(i));
    // F26Dot6
    let g = F26Dot6::from_bits(a);
    if a <= i32::MAX - 32 {
        assert!(g.to_i32() as i64 == (a as i64 + 32).div_euclid(64));
    }
    let j: i32 = kani::any();
    kani::assume(j >= -(1 << 25) && j < (1 << 25));
    assert!(F26Dot6::from_i32(j).to_bits() == j * 64);
    assert!(F26Dot6::from_i32(j).to_i32() == j);
    // constants
    assert!(Fixed::ONE.to_bits() == 0x10000 && F26Dot6::ONE.to_bits() == 64 && F2Dot14::ONE.to_bits() == 0x4000);
    assert!(Fixed::MIN.to_bits() == i32::MIN && Fixed::MAX.to_bits() == i32::MAX && Fixed::EPSILON.to_bits() == 1);
    assert!(f.to_be_bytes() == a.to_be_bytes());
    kani::cover!(a < 0 && a & 0x3FF == 0x200, "negative tie to_f26dot6");
}
