"""Change-focused selection for the quick tier.

The quick tier cannot pose every query inside its wall-clock budget, so the generated table and
opcode queries are seed-rotated. On top of the rotated window, every query that exercises a source
file which differs from the recorded baseline (uncommitted edits, or commits after
gen/baseline_commit.txt) is selected and run FIRST. This never changes what a query asserts."""
import os
import re
import subprocess

from kani_run import REPO, VERIF


def changed_files():
    files = set()
    base = None
    try:
        base = open(os.path.join(VERIF, "gen", "baseline_commit.txt")).read().split()[0]
    except Exception:
        pass
    cmds = [["git", "-C", REPO, "diff", "--name-only", "HEAD"],
            ["git", "-C", REPO, "ls-files", "--others", "--exclude-standard"]]
    if base:
        cmds.append(["git", "-C", REPO, "diff", "--name-only", base, "HEAD"])
    for c in cmds:
        try:
            out = subprocess.run(c, stdout=subprocess.PIPE, stderr=subprocess.DEVNULL, text=True, timeout=60).stdout
            files.update(l.strip() for l in out.split("\n") if l.strip().endswith(".rs"))
        except Exception:
            pass
    return sorted(files)


def opcode_handlers():
    """opcode name (lower case) -> file of skrifa's engine/ that defines its handler"""
    eng = os.path.join(REPO, "skrifa/src/outline/glyf/hint/engine")
    try:
        disp = open(os.path.join(eng, "dispatch.rs")).read()
    except Exception:
        return {}
    fn_file = {}
    for f in os.listdir(eng):
        if f.endswith(".rs"):
            for m in re.finditer(r"fn (op_\w+)\(", open(os.path.join(eng, f)).read()):
                fn_file[m.group(1)] = "skrifa/src/outline/glyf/hint/engine/" + f
    out = {"__fn__" + k: v for k, v in fn_file.items()}
    for m in re.finditer(r"^\s*([A-Z0-9_ |\n]+?)\s*=>\s*self\.(op_\w+)\(", disp, re.M):
        for name in re.split(r"[|\s]+", m.group(1)):
            if name and m.group(2) in fn_file:
                out[name.lower()] = fn_file[m.group(2)]
    return out


def recorded_files():
    """harness fn -> source files its solver query had checks in (recorded from earlier runs on the
    unchanged tree: gen/harness_files.json)"""
    try:
        import json
        return json.load(open(os.path.join(VERIF, "gen", "harness_files.json")))
    except Exception:
        return {}


def focus(allh, files):
    """-> set of harness names (fully qualified) that exercise a changed file"""
    if not files:
        return set()
    sel = set()
    rec = recorded_files()
    fset = set(files)
    precise = set()
    for h in allh:
        fl = rec.get(h["fn"])
        if fl is not None:
            precise.add(h["fn"])
            if fset & set(fl):
                sel.add(h["name"])
    mods = set()
    shared_hint = False
    engine_files = set()
    for f in files:
        m = re.match(r"read-fonts/(?:src/tables/(\w+)(?:\.rs|/.*)|generated/generated_(\w+)\.rs)$", f)
        if m:
            mods.add(m.group(1) or m.group(2))
        if f.startswith("skrifa/src/outline/glyf/hint/engine/") and not f.endswith("/mod.rs") and not f.endswith("/dispatch.rs"):
            engine_files.add(f)
        elif f.startswith("skrifa/src/outline/glyf/hint/") or f.startswith("font-types/src/fixed"):
            shared_hint = True
    handlers = opcode_handlers() if (engine_files and not shared_hint) else {}
    src_cache = {}
    for h in allh:
        fn = h["fn"]
        for mod in mods:
            if re.match(r"c\d\d_(read|hw)_%s__" % re.escape(mod), fn):
                sel.add(h["name"])
            elif not fn.startswith("c01_read_") and not fn.startswith("c01_hw_"):
                src = src_cache.setdefault(h["file"], open(h["file"]).read())
                if re.search(r"tables::%s\b" % re.escape(mod), src):
                    sel.add(h["name"])
        if fn in precise:
            continue   # decided from the recorded check locations of this very query
        if fn.startswith("c02_op_"):
            op = fn.split("_", 3)[3] if fn.count("_") >= 3 else ""
            hf = handlers.get(op)
            if hf is None:
                # MIRP / MDRP / PUSH* are dispatched by range in the fallback arm
                for pre, hfn in (("mirp", "op_mirp"), ("mdrp", "op_mdrp"), ("push", "op_push")):
                    if op.startswith(pre):
                        hf = handlers.get("__fn__" + hfn)
            if shared_hint or hf in engine_files:
                sel.add(h["name"])
        # a harness file pulled into the changed file itself (in-crate hooks)
        for f in files:
            if h["crate"].endswith("_in") and os.path.basename(f) == os.path.basename(h["file"]) and "incrate" in h["file"]:
                sel.add(h["name"])
    return sel
