#!/usr/bin/env python3
"""Regenerates /verif/MANIFEST.json from lib/props.py + lib/manifest_text.py."""
import json, os, sys
sys.path.insert(0, os.path.dirname(os.path.abspath(__file__)))
import manifest_text as T

checks = []
for pid, c in sorted(T.CHECKS.items()):
    checks.append({
        "property_id": pid,
        "quick_cmd": "./vf check %s --tier quick" % pid,
        "thorough_cmd": "./vf check %s --tier thorough" % pid,
        "evidence_file": "evidence/%s.json" % pid,
        "replay_cmd_template": "./vf replay {path}",
        "engine": c.get("engine", "kani"),
        "level_claimed": {"category": "model_checking", "text": c["text"], "design_ref": c["design_ref"]},
        "level_note": c["note"],
        "technique": c["technique"],
    })
NA = dict(T.NOT_APPLICABLE)
for i in range(1, 21):
    p = "C%02d" % i
    if p not in T.CHECKS and p not in NA:
        NA[p] = "no check registered yet: the harnesses planned for it in DESIGN.md are not built at this commit"
m = {
    "version": 1,
    "setup_cmd": "./setup.sh",
    "hooks": {
        "guard": "googlefonts_fontations_verif",
        "enable": "RUSTFLAGS='--cfg googlefonts_fontations_verif' (set by ./vf for in-crate harness builds: cargo kani -p <crate> and cargo test -p <crate> for native replay)",
        "baseline_off_cmd": "cd /repo && cargo test --workspace --no-fail-fast --offline",
        "source_commits": T.HOOK_COMMITS,
        "add_only": True,
    },
    "engines": T.ENGINES,
    "checks": checks,
    "notes": T.NOTES,
    "not_applicable": [{"property_id": p, "reason": r} for p, r in sorted(NA.items())],
}
json.dump(m, open(os.path.join(os.path.dirname(os.path.dirname(os.path.abspath(__file__))), "MANIFEST.json"), "w"), indent=1)
print("checks:", [c["property_id"] for c in checks], "n/a:", sorted(T.NOT_APPLICABLE))
