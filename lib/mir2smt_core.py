"""E2 — nightly MIR -> SMT for loop-free integer functions (run under python3-vt: needs z3py 5.1).

A function's CFG (a DAG) is executed symbolically block by block in topological order; states
are ite-merged at join points.  Two encodings from the same walk:
  mode "int": mathematical integers with explicit wrap (mod 2^k) — decides the 64-bit division
              kernels that bit-blasting cannot; division is introduced as fresh (q, r) with the
              division lemma  a = b*q + r, 0 <= r < |b|.
  mode "bv" : fixed-width bit-vectors (used as a cross-check of the translator and for bit ops
              the int encoding does not support).
Every `assert` terminator is an obligation "pc ∧ ¬cond is unsat".  Anything the translator does
not recognise raises Unsupported -> the function is reported inconclusive, never skipped.
"""
import re
import z3


class Unsupported(Exception):
    pass


INT_TYPES = {
    "i8": (True, 8), "i16": (True, 16), "i32": (True, 32), "i64": (True, 64), "i128": (True, 128),
    "isize": (True, 64), "u8": (False, 8), "u16": (False, 16), "u32": (False, 32), "u64": (False, 64),
    "u128": (False, 128), "usize": (False, 64),
}
# newtype structs (single integer field) and plain structs we know the layout of
NEWTYPES = {"Fixed": "i32", "F26Dot6": "i32", "F2Dot14": "i16", "F4Dot12": "i16", "F6Dot10": "i16"}


def base_type(t):
    t = t.strip()
    t = re.sub(r"^&(?:'\w+ )?(?:mut )?", "", t)
    t = t.split("::")[-1] if "<" not in t else t
    return t


class Func:
    def __init__(self, name, params, ret, locals_, blocks, ctfe):
        self.name, self.params, self.ret, self.locals, self.blocks, self.ctfe = name, params, ret, locals_, blocks, ctfe


def parse_mir(text):
    """-> list of Func"""
    funcs = []
    lines = text.split("\n")
    i = 0
    prev_comment = ""
    while i < len(lines):
        line = lines[i]
        if line.startswith("// MIR FOR CTFE"):
            prev_comment = "ctfe"
        m = re.match(r"^fn (.+?)\((.*)\) -> (.+?) \{$", line)
        if m and not line.startswith(" "):
            name, params, ret = m.group(1), m.group(2), m.group(3)
            j = i + 1
            body = []
            while j < len(lines) and lines[j] != "}":
                body.append(lines[j])
                j += 1
            plist = []
            depth = 0
            cur = ""
            for ch in params:
                if ch in "<([{":
                    depth += 1
                if ch in ">)]}":
                    depth -= 1
                if ch == "," and depth == 0:
                    plist.append(cur)
                    cur = ""
                else:
                    cur += ch
            if cur.strip():
                plist.append(cur)
            pp = []
            for p in plist:
                pm = re.match(r"\s*(_\d+): (.+)", p)
                if pm:
                    pp.append((pm.group(1), pm.group(2).strip()))
            locals_ = dict(pp)
            blocks = {}
            cur_bb = None
            for b in body:
                lm = re.match(r"\s+let (?:mut )?(_\d+): (.+);", b)
                if lm:
                    locals_[lm.group(1)] = lm.group(2).strip()
                    continue
                bm = re.match(r"\s+(bb\d+)(?: \(cleanup\))?: \{", b)
                if bm:
                    cur_bb = bm.group(1)
                    blocks[cur_bb] = []
                    continue
                if cur_bb and b.strip() == "}":
                    cur_bb = None
                    continue
                if cur_bb and b.strip():
                    blocks[cur_bb].append(b.strip())
            funcs.append(Func(name, pp, ret.strip(), locals_, blocks, prev_comment == "ctfe"))
            prev_comment = ""
            i = j
        elif line.strip() and not line.startswith("//"):
            prev_comment = ""
        i += 1
    return funcs


class Engine:
    def __init__(self, funcs, mode, resolver=None):
        self.funcs = funcs
        self.mode = mode
        self.resolver = resolver
        self.obligations = []   # (description, formula that must be UNSAT)
        self.side = []          # side constraints (division lemmas), always assumed
        self.fresh = 0
        self.encoded = set()
        self.release = False    # True: overflow checks compiled out (arithmetic wraps, execution continues)
        self.ret_pc = None      # path condition under which the top-level function returns
        self.ctx = []           # case assumptions under which the function is being encoded
        self._dec_cache = {}
        self.decisions = 0

    def decide(self, cond):
        """True / False if the case assumptions (and division lemmas) decide cond, else None"""
        if not self.ctx:
            c = z3.simplify(cond)
            return True if z3.is_true(c) else (False if z3.is_false(c) else None)
        c = z3.simplify(cond)
        if z3.is_true(c):
            return True
        if z3.is_false(c):
            return False
        key = c.sexpr()
        if key in self._dec_cache:
            return self._dec_cache[key]
        res = None
        for want, f in ((True, z3.Not(c)), (False, c)):
            s = z3.Solver()
            s.set("timeout", 2000)
            for x in self.side:
                s.add(x)
            for x in self.ctx:
                s.add(x)
            s.add(f)
            if s.check() == z3.unsat:
                res = want
                break
        self.decisions += 1
        self._dec_cache[key] = res
        return res

    def mk_if(self, c, a, b):
        d = self.decide(c)
        if d is True:
            return a
        if d is False:
            return b
        return z3.If(c, a, b)

    # ---------- values ---------------------------------------------------------------
    def ty_of(self, t):
        t = base_type(t)
        if t in INT_TYPES:
            return ("int",) + INT_TYPES[t]
        if t == "bool":
            return ("bool",)
        if t in NEWTYPES:
            return ("struct", [self.ty_of(NEWTYPES[t])])
        if t == "RoundState":
            return ("struct", [("int", True, 64), ("int", True, 32), ("int", True, 32), ("int", True, 32)])
        if t.startswith("(") and t.endswith(")"):
            inner = t[1:-1]
            if not inner.strip():
                return ("struct", [])
            return ("struct", [self.ty_of(x) for x in inner.split(",") if x.strip()])
        if t in ("Ordering", "core::cmp::Ordering", "std::cmp::Ordering"):
            return ("int", True, 8)
        raise Unsupported("type " + t)

    def mk_const(self, v, ty):
        if ty[0] == "bool":
            return z3.BoolVal(bool(v))
        if self.mode == "int":
            return z3.IntVal(v)
        return z3.BitVecVal(v, ty[2])

    def fresh_var(self, ty, hint="v"):
        self.fresh += 1
        name = "%s!%d" % (hint, self.fresh)
        if ty[0] == "bool":
            return z3.Bool(name)
        if ty[0] == "struct":
            return [self.fresh_var(t, hint) for t in ty[1]]
        if self.mode == "int":
            v = z3.Int(name)
            self.side.append(self.in_range(v, ty))
            return v
        return z3.BitVec(name, ty[2])

    def in_range(self, v, ty):
        signed, bits = ty[1], ty[2]
        if signed:
            return z3.And(v >= -(1 << (bits - 1)), v < (1 << (bits - 1)))
        return z3.And(v >= 0, v < (1 << bits))

    def norm(self, v, ty):
        """wrap a mathematical integer into the type's range (int mode)"""
        signed, bits = ty[1], ty[2]
        m = 1 << bits
        if self.decide(self.in_range(v, ty)) is True:
            return v
        if signed:
            h = 1 << (bits - 1)
            return ((v + h) % m) - h
        return v % m

    def ite(self, c, a, b):
        if isinstance(a, list):
            return [self.ite(c, x, y) for x, y in zip(a, b)]
        if a is None:
            return b
        if b is None:
            return a
        if a is b or (not isinstance(a, list) and a.eq(b)):
            return a
        return z3.If(c, a, b)

    # ---------- places / operands ------------------------------------------------------
    def parse_place(self, s):
        """-> (local, [field indices])"""
        s = s.strip()
        fields = []
        while True:
            m = re.match(r"^\((.+)\.(\d+): [^()]*(?:\([^()]*\))?[^()]*\)$", s)
            if m:
                fields.insert(0, int(m.group(2)))
                s = m.group(1).strip()
                continue
            m = re.match(r"^\(\*(.+)\)$", s)
            if m:
                s = m.group(1).strip()
                continue
            m = re.match(r"^\*(_\d+)$", s)
            if m:
                s = m.group(1)
                continue
            break
        if not re.match(r"^_\d+$", s):
            raise Unsupported("place " + s)
        return s, fields

    def read_place(self, env, s):
        loc, fields = self.parse_place(s)
        if loc not in env:
            raise Unsupported("read of unset " + loc)
        v = env[loc]
        for f in fields:
            if not isinstance(v, list):
                raise Unsupported("field of scalar " + s)
            v = v[f]
        return v

    def write_place(self, env, s, val):
        loc, fields = self.parse_place(s)
        if not fields:
            env[loc] = val
            return
        cur = env.get(loc)
        if cur is None:
            raise Unsupported("partial write to unset " + loc)

        def upd(v, fs):
            if not fs:
                return val
            v = list(v)
            v[fs[0]] = upd(v[fs[0]], fs[1:])
            return v
        env[loc] = upd(cur, fields)

    def type_of_place(self, f, s):
        loc, fields = self.parse_place(s)
        t = self.ty_of(f.locals[loc])
        for fl in fields:
            t = t[1][fl]
        return t

    def operand(self, f, env, s, ty_hint=None):
        s = s.strip()
        m = re.match(r"^(copy|move) (.+)$", s)
        if m:
            return self.read_place(env, m.group(2)), None
        m = re.match(r"^const (.+)$", s)
        if m:
            c = m.group(1).strip()
            if c in ("true", "false"):
                return z3.BoolVal(c == "true"), ("bool",)
            mm = re.match(r"^(-?\d+)_(\w+)$", c)
            if mm:
                ty = self.ty_of(mm.group(2))
                return self.mk_const(int(mm.group(1)), ty), ty
            mm = re.match(r"^(\w+)::(MIN|MAX)$", c)
            if mm and mm.group(1) in INT_TYPES:
                ty = self.ty_of(mm.group(1))
                signed, bits = ty[1], ty[2]
                v = (-(1 << (bits - 1)) if signed else 0) if mm.group(2) == "MIN" else ((1 << (bits - 1)) - 1 if signed else (1 << bits) - 1)
                return self.mk_const(v, ty), ty
            if c == "()":
                return [], ("struct", [])
            raise Unsupported("const " + c)
        raise Unsupported("operand " + s)

    # ---------- arithmetic -------------------------------------------------------------
    def binop(self, op, a, b, ty, desc=""):
        I = self.mode == "int"
        signed = ty[1] if ty[0] == "int" else False
        bits = ty[2] if ty[0] == "int" else 1
        if op in ("Eq", "Ne", "Lt", "Le", "Gt", "Ge"):
            if ty[0] == "bool":
                return {"Eq": a == b, "Ne": a != b}[op]
            if I or signed:
                return {"Eq": a == b, "Ne": a != b, "Lt": a < b, "Le": a <= b, "Gt": a > b, "Ge": a >= b}[op]
            return {"Eq": a == b, "Ne": a != b, "Lt": z3.ULT(a, b), "Le": z3.ULE(a, b), "Gt": z3.UGT(a, b), "Ge": z3.UGE(a, b)}[op]
        if ty[0] == "bool":
            return {"BitAnd": z3.And(a, b), "BitOr": z3.Or(a, b), "BitXor": z3.Xor(a, b)}[op]
        if op in ("Add", "Sub", "Mul", "AddUnchecked", "SubUnchecked", "MulUnchecked"):
            o = op.replace("Unchecked", "")
            r = {"Add": a + b, "Sub": a - b, "Mul": a * b}[o]
            return self.norm(r, ty) if I else r
        if op in ("AddWithOverflow", "SubWithOverflow", "MulWithOverflow"):
            o = op.replace("WithOverflow", "")
            if I:
                exact = {"Add": a + b, "Sub": a - b, "Mul": a * b}[o]
                return [self.norm(exact, ty), z3.Not(self.in_range(exact, ty))]
            r = {"Add": a + b, "Sub": a - b, "Mul": a * b}[o]
            if o == "Add":
                ok = z3.And(z3.BVAddNoOverflow(a, b, signed), z3.BVAddNoUnderflow(a, b) if signed else z3.BoolVal(True))
            elif o == "Sub":
                ok = z3.And(z3.BVSubNoUnderflow(a, b, signed), z3.BVSubNoOverflow(a, b) if signed else z3.BoolVal(True))
            else:
                ok = z3.And(z3.BVMulNoOverflow(a, b, signed), z3.BVMulNoUnderflow(a, b) if signed else z3.BoolVal(True))
            return [r, z3.Not(ok)]
        if op in ("Div", "Rem"):
            if not I:
                if signed:
                    return (a / b) if op == "Div" else z3.SRem(a, b)
                return z3.UDiv(a, b) if op == "Div" else z3.URem(a, b)
            # truncating division through magnitudes with fresh quotient/remainder
            q = self.fresh_var(("int", False, 128), "q")
            r = self.fresh_var(("int", False, 128), "r")
            aa = self.mk_if(a >= 0, a, -a) if signed else a
            ab = self.mk_if(b >= 0, b, -b) if signed else b
            self.side.append(z3.Implies(ab > 0, z3.And(aa == ab * q + r, r >= 0, r < ab, q >= 0, q <= aa)))
            if signed:
                neg = z3.Xor(a < 0, b < 0)
                qq = self.mk_if(neg, -q, q)
                rr = self.mk_if(a < 0, -r, r)
            else:
                qq, rr = q, r
            return self.norm(qq, ty) if op == "Div" else rr
        if op in ("Shl", "Shr", "ShlUnchecked", "ShrUnchecked"):
            o = op.replace("Unchecked", "")
            if I:
                k = z3.simplify(b)
                if not z3.is_int_value(k):
                    raise Unsupported("shift by a symbolic amount (int mode)")
                k = k.as_long() % bits
                if o == "Shl":
                    return self.norm(a * (1 << k), ty)
                return a / (1 << k)  # floor division = arithmetic shift for signed, logical for unsigned
            bb = b
            if bb.size() != bits:
                bb = z3.Extract(bits - 1, 0, bb) if bb.size() > bits else z3.ZeroExt(bits - bb.size(), bb)
            bb = bb & (bits - 1)
            if o == "Shl":
                return a << bb
            return (a >> bb) if signed else z3.LShR(a, bb)
        if op in ("BitAnd", "BitOr", "BitXor"):
            if not I:
                return {"BitAnd": a & b, "BitOr": a | b, "BitXor": a ^ b}[op]
            if op == "BitAnd":
                for x, c in ((a, b), (b, a)):
                    cs = z3.simplify(c)
                    if z3.is_int_value(cs):
                        cv = cs.as_long()
                        if cv >= 0 and (cv & (cv + 1)) == 0:      # low mask 2^k - 1
                            return x % (cv + 1)
                        if cv < 0 and ((-cv) & (-cv - 1)) == 0:   # ~(2^k - 1)
                            return x - (x % (-cv))
                        if not signed and ((~cv) & ((1 << bits) - 1)) + 1 & ((~cv) & ((1 << bits) - 1)) == 0:
                            low = ((~cv) & ((1 << bits) - 1)) + 1
                            return x - (x % low)
            raise Unsupported("bit operation %s on symbolic operands (int mode)" % op)
        raise Unsupported("binop " + op)

    def cast(self, v, from_ty, to_ty):
        if from_ty[0] == "bool":
            one, zero = self.mk_const(1, to_ty), self.mk_const(0, to_ty)
            return self.mk_if(v, one, zero)
        if self.mode == "int":
            return self.norm(v, to_ty)
        fb, tb = from_ty[2], to_ty[2]
        if tb == fb:
            return v
        if tb < fb:
            return z3.Extract(tb - 1, 0, v)
        return z3.SignExt(tb - fb, v) if from_ty[1] else z3.ZeroExt(tb - fb, v)

    # ---------- intrinsics -------------------------------------------------------------
    def intrinsic(self, callee, args, arg_tys, pc):
        m = re.match(r"^core::num::<impl (\w+)>::(\w+)$", callee) or re.match(r"^<(\w+) as \w+(?:<\w+>)?>::(\w+)$", callee) \
            or re.match(r"^std::cmp::(?:Ord|PartialOrd)::(\w+)::<(\w+)>$", callee)
        if not m:
            return None
        tname, fn = m.group(1), m.group(2)
        if tname not in INT_TYPES:
            if m.group(2) in INT_TYPES:
                tname, fn = m.group(2), m.group(1)
            else:
                return None
        ty = self.ty_of(tname)
        I = self.mode == "int"
        a = args[0]
        b = args[1] if len(args) > 1 else None
        signed, bits = ty[1], ty[2]
        lo = self.mk_const(-(1 << (bits - 1)) if signed else 0, ty)
        hi = self.mk_const((1 << (bits - 1)) - 1 if signed else (1 << bits) - 1, ty)
        if fn in ("wrapping_add", "wrapping_sub", "wrapping_mul"):
            return self.binop(fn[9:].capitalize(), a, b, ty)
        if fn == "wrapping_neg":
            return self.binop("Sub", self.mk_const(0, ty), a, ty)
        if fn in ("saturating_add", "saturating_sub"):
            r, ovf = self.binop(fn[11:].capitalize() + "WithOverflow", a, b, ty)
            if signed:
                sat = z3.If(b < 0, lo, hi) if fn == "saturating_add" else z3.If(b < 0, hi, lo)
            else:
                sat = hi if fn == "saturating_add" else lo
            return self.mk_if(ovf, sat, r)
        if fn in ("max", "min"):
            lt = self.binop("Lt", a, b, ty)
            return self.mk_if(lt, b, a) if fn == "max" else self.mk_if(lt, a, b)
        if fn == "clamp":
            c = args[2]
            self.obligations.append(("assertion failed: min <= max (clamp)", z3.And(pc, self.binop("Gt", b, c, ty))))
            return self.mk_if(self.binop("Lt", a, b, ty), b, self.mk_if(self.binop("Gt", a, c, ty), c, a))
        if fn == "abs":
            self.obligations.append(("attempt to negate with overflow (abs)", z3.And(pc, a == lo)))
            return self.mk_if(a < 0, self.binop("Sub", self.mk_const(0, ty), a, ty), a)
        if fn == "unsigned_abs":
            return self.mk_if(a < 0, -a, a)
        if fn == "from" and arg_tys and arg_tys[0] == ("bool",):
            return self.mk_if(a, self.mk_const(1, ty), self.mk_const(0, ty))
        if fn == "cmp":
            o8 = ("int", True, 8)
            return z3.If(self.binop("Lt", a, b, ty), self.mk_const(-1, o8), z3.If(self.binop("Eq", a, b, ty), self.mk_const(0, o8), self.mk_const(1, o8)))
        return None

    # ---------- execution --------------------------------------------------------------
    def find(self, pred):
        c = [f for f in self.funcs if not f.ctfe and pred(f)]
        return c[0] if c else None

    def run(self, f, args, pc=None, depth=0):
        """symbolically execute f on args (list of values); returns the merged return value.
        Obligations/side constraints accumulate on self."""
        if depth > 6:
            raise Unsupported("call depth")
        self.encoded.add(f.name)
        pc = z3.BoolVal(True) if pc is None else pc
        env0 = {}
        for (pname, pty), v in zip(f.params, args):
            env0[pname] = v
        order = self.topo(f)
        incoming = {"bb0": [(pc, env0)]}
        rets = []
        for bb in order:
            if bb not in incoming:
                continue
            inc = incoming[bb]
            cond = inc[0][0]
            env = dict(inc[0][1])
            for c2, e2 in inc[1:]:
                keys = set(env) | set(e2)
                merged = {}
                for k in keys:
                    merged[k] = self.ite(c2, e2.get(k), env.get(k)) if (k in e2 and k in env) else (e2.get(k) if k in e2 else env.get(k))
                env = merged
                cond = z3.Or(cond, c2)
            cond = z3.simplify(cond)
            stmts = f.blocks[bb]
            self.cur_bb = "%s:%s" % (f.name.split("::")[-1], bb)
            for st in stmts[:-1]:
                self.stmt(f, env, st, cond)
            term = stmts[-1]
            for (tgt, c) in self.terminator(f, env, term, cond, depth, rets):
                incoming.setdefault(tgt, []).append((c, dict(env)))
        if not rets:
            raise Unsupported("no return reached in " + f.name)
        val = rets[0][1]
        for c, v in rets[1:]:
            val = self.ite(c, v, val)
        if depth == 0:
            self.ret_pc = z3.simplify(z3.Or([c for c, _ in rets]))
        return val

    def topo(self, f):
        succ = {}
        for bb, stmts in f.blocks.items():
            succ[bb] = re.findall(r"\bbb\d+\b", stmts[-1].split("->", 1)[1]) if "->" in stmts[-1] else []
            succ[bb] = [s for s in succ[bb] if "unwind" not in s]
        seen, order, onstack = set(), [], set()

        def dfs(b):
            seen.add(b)
            onstack.add(b)
            for s in succ.get(b, []):
                if s in onstack:
                    raise Unsupported("loop in " + f.name)
                if s not in seen:
                    dfs(s)
            onstack.discard(b)
            order.append(b)
        dfs("bb0")
        return order[::-1]

    def stmt(self, f, env, st, pc):
        st = st.rstrip(";")
        if re.match(r"^(StorageLive|StorageDead|FakeRead|nop|PlaceMention|Retag|AscribeUserType|Coverage)", st):
            return
        m = re.match(r"^(.+?) = (.+)$", st)
        if not m:
            raise Unsupported("statement " + st)
        dst, rhs = m.group(1).strip(), m.group(2).strip()
        val = self.rvalue(f, env, rhs, dst)
        self.write_place(env, dst, val)

    def rvalue(self, f, env, rhs, dst):
        dty = None
        try:
            dty = self.type_of_place(f, dst)
        except Unsupported:
            pass
        m = re.match(r"^(\w+)\((.+), (.+)\)$", rhs)
        if m and m.group(1) in ("Add", "Sub", "Mul", "Div", "Rem", "BitAnd", "BitOr", "BitXor", "Shl", "Shr", "Eq", "Ne",
                                "Lt", "Le", "Gt", "Ge", "AddWithOverflow", "SubWithOverflow", "MulWithOverflow",
                                "AddUnchecked", "SubUnchecked", "MulUnchecked", "ShlUnchecked", "ShrUnchecked"):
            op = m.group(1)
            a, ta = self.operand(f, env, m.group(2))
            b, tb = self.operand(f, env, m.group(3))
            ty = ta or self.operand_type(f, m.group(2)) or tb or self.operand_type(f, m.group(3))
            if ty is None:
                raise Unsupported("untyped binop " + rhs)
            return self.binop(op, a, b, ty)
        m = re.match(r"^(Neg|Not)\((.+)\)$", rhs)
        if m:
            a, ta = self.operand(f, env, m.group(2))
            ty = ta or self.operand_type(f, m.group(2))
            if m.group(1) == "Not":
                if ty[0] == "bool":
                    return z3.Not(a)
                if self.mode == "int":
                    return self.norm(-a - 1, ty)
                return ~a
            return self.binop("Sub", self.mk_const(0, ty), a, ty)
        m = re.match(r"^(.+) as (\w+) \(IntToInt\)$", rhs)
        if m:
            a, ta = self.operand(f, env, m.group(1))
            ty = ta or self.operand_type(f, m.group(1))
            return self.cast(a, ty, self.ty_of(m.group(2)))
        m = re.match(r"^discriminant\((.+)\)$", rhs)
        if m:
            v = self.read_place(env, m.group(1))
            sty = self.type_of_place(f, m.group(1))
            return self.cast(v, sty, dty) if dty and sty != dty else v
        m = re.match(r"^&(?:mut |raw const |raw mut )?(.+)$", rhs)
        if m:
            return self.read_place(env, m.group(1))
        m = re.match(r"^(copy|move|const) ", rhs)
        if m:
            v, _ = self.operand(f, env, rhs)
            return v
        m = re.match(r"^\((.*)\)$", rhs)  # tuple aggregate
        if m and dty and dty[0] == "struct":
            parts = [p for p in self.split_args(m.group(1))]
            return [self.operand(f, env, p)[0] for p in parts]
        m = re.match(r"^([\w:]+)(?:::<[^>]*>)?\((.*)\)$", rhs)  # newtype ctor  Fixed(move _40)
        if m and base_type(m.group(1)) in NEWTYPES:
            return [self.operand(f, env, m.group(2))[0]]
        raise Unsupported("rvalue " + rhs)

    def operand_type(self, f, s):
        m = re.match(r"^(copy|move) (.+)$", s.strip())
        if m:
            return self.type_of_place(f, m.group(2))
        return None

    def split_args(self, s):
        out, depth, cur = [], 0, ""
        for ch in s:
            if ch in "([<":
                depth += 1
            if ch in ")]>":
                depth -= 1
            if ch == "," and depth == 0:
                out.append(cur.strip())
                cur = ""
            else:
                cur += ch
        if cur.strip():
            out.append(cur.strip())
        return out

    def terminator(self, f, env, t, pc, depth, rets):
        t = t.rstrip(";")
        if t == "return":
            rets.append((pc, env.get("_0", [])))
            return []
        if t == "unreachable":
            return []
        m = re.match(r"^goto -> (bb\d+)$", t)
        if m:
            return [(m.group(1), pc)]
        m = re.match(r"^switchInt\((.+)\) -> \[(.+)\]$", t)
        if m:
            v, ty = self.operand(f, env, m.group(1))
            ty = ty or self.operand_type(f, m.group(1))
            outs = []
            taken = []
            for arm in m.group(2).split(","):
                k, tgt = [x.strip() for x in arm.split(":")]
                if k == "otherwise":
                    c = z3.And([z3.Not(x) for x in taken]) if taken else z3.BoolVal(True)
                else:
                    if ty[0] == "bool":
                        c = v if int(k) != 0 else z3.Not(v)
                    else:
                        c = v == self.mk_const(int(k), ty)
                    taken.append(c)
                d = self.decide(c)
                if d is False:
                    continue
                outs.append((tgt, pc if d is True else z3.And(pc, c)))
            return outs
        m = re.match(r"^assert\((!?)(.+?), \"(.*?)\"(?:, .*)?\) -> \[success: (bb\d+), unwind[^\]]*\]$", t)
        if m:
            c, _ = self.operand(f, env, m.group(2))
            cond = z3.Not(c) if m.group(1) else c
            self.obligations.append((self.describe(m.group(3)) + " in " + f.name.split("::")[-1] + " @" + self.cur_bb.split(":")[-1], z3.And(pc, z3.Not(cond))))
            if self.release and "overflow" in m.group(3):
                return [(m.group(4), pc)]
            return [(m.group(4), pc if self.decide(cond) is True else z3.And(pc, cond))]
        m = re.match(r"^(.+?) = (.+?)\((.*)\) -> \[return: (bb\d+), unwind[^\]]*\]$", t)
        if m:
            dst, callee, argstr, nxt = m.group(1), m.group(2).strip(), m.group(3), m.group(4)
            args, tys = [], []
            for a in self.split_args(argstr):
                v, ty = self.operand(f, env, a)
                args.append(v)
                tys.append(ty or self.operand_type(f, a))
            r = self.intrinsic(callee, args, tys, pc)
            if r is None:
                g = self.resolver(callee, args, tys) if self.resolver else None
                if g is None:
                    raise Unsupported("call to " + callee)
                saved_bb = self.cur_bb
                r = self.run(g, args, pc, depth + 1)
                self.cur_bb = saved_bb
            self.write_place(env, dst, r)
            return [(nxt, pc)]
        raise Unsupported("terminator " + t)

    @staticmethod
    def describe(msg):
        msg = msg.replace("`{}`", "_").replace("{}", "_")
        if "overflow" in msg:
            m = re.search(r"compute _ (.) _", msg)
            ops = {"+": "add", "-": "subtract", "*": "multiply", "/": "divide", "%": "calculate the remainder", "<<": "shift left", ">>": "shift right"}
            if m and m.group(1) in ops:
                return "attempt to %s with overflow" % ops[m.group(1)]
            if "negate" in msg:
                return "attempt to negate with overflow"
            if "shift right" in msg:
                return "attempt to shift right with overflow"
            if "shift left" in msg:
                return "attempt to shift left with overflow"
        return msg
