HOOK_COMMITS = [
    "7493c96 verif hook: skrifa hint engine in-crate harness module",
    "e178f84 verif hook: read-fonts BitPage in-crate harness module",
    "66b5d91 verif hooks: skrifa decycler and glyf memory in-crate harness modules",
    "76545d8 verif hooks: read-fonts BitSet in-crate harness module; BitPage harness module visible to its siblings (also carries the write-fonts write/cmap/font_builder hooks)",
    "228641b verif hooks: skrifa outline path and write-fonts glyf simple in-crate harness modules",
    "0eedda0 verif hooks: write-fonts ivs_builder and loca in-crate harness modules",
    "db8b4be verif hook: read-fonts variations in-crate harness module",
]
ENGINES = [
    {"name": "mir2smt", "path": "lib/mir2smt_core.py", "serves_properties": ["C15", "C20"],
     "kind_free_text": "nightly MIR dump of /repo crates -> SMT (z3 5.1 Int encoding with sign-case split; bit-vector cross-check) for loop-free integer functions at full machine width; translator validated against the real functions on concrete vectors every run"},
    {"name": "kani", "path": "harness/", "serves_properties": ["C01", "C02", "C06", "C08", "C09", "C10", "C11", "C12", "C13", "C14", "C15", "C16", "C20"],
     "kind_free_text": "Kani 0.68 / CBMC 6.11 / cadical bounded model checking of the compiled /repo crates (harness crates with path dependencies on /repo, rebuilt from the working tree on every run)"},
]
NOTES = ("Every hook is one cfg-guarded `#[path = \"/verif/harness/incrate/<file>.rs\"] mod verif_harness;` line placed before the crate's own test module; "
         "with the guard off the declaration is stripped before the path is resolved. fix: commits in /repo: 9c7c878, 70acc1b, e567e1f, faed5d2, 156cbd4, b03402d (see known_findings.jsonl). ""Every check is `./vf check <ID>`: regenerates harness sources / dispatch tables from /repo, compiles the harness crates "
         "against /repo's working tree with cargo kani, poses one solver query per harness, replays any counterexample natively "
         "(dev + release) before printing VIOLATION, and writes evidence/<ID>.json. exit 2 = machinery problem (never a verdict).")
CHECKS = {
    "C01": {
        "text": "Bounded model checking of read-fonts: for every FontRead/FontReadWithArgs impl found in the current sources (generator) the table is read from a symbolic buffer of symbolic length with symbolic arguments and every generated accessor is called; every hand-written accessor whose arguments can be synthesised gets its own query; plus FontRef/FileRef/CollectionRef/FontData entry points and a relocation query. Any reachable panic or loop beyond the unwinding bound fails.",
        "design_ref": "DESIGN.md §3 C01",
        "note": "Bounds: N=24 bytes (16 for hand-written accessors; larger for fixed-size tables that need it), walk depth 1, first 3 iterator items. Quick tier = core + a VERIF_SEED-rotated window of the generated queries whose calibrated cost is < 90 s; thorough = all. Inputs longer than N, deeper offset chains, thread schedules and the traversal module are outside the claim; harnesses that time out are listed as inconclusive in the evidence.",
        "technique": "solver-based bounded model checking (Kani/CBMC SAT) of the compiled /repo code; harnesses generated from /repo/read-fonts on every run",
    },
    "C02": {
        "text": "TrueType interpreter stepped once per opcode (256 solver queries) from an arbitrary stack/zone/cvt/storage state, two-step setter;op queries in the thorough tier, loop-budget kernel, scratch-memory allocators for any buffer length/alignment: no reachable panic.",
        "design_ref": "DESIGN.md §3 C02",
        "note": "State is constructed directly on the stack (8-slot value stack, 4-point zones); whole-font drawing, programs longer than 2 instructions, the CFF hinter, the auto-hinter, colour painting beyond C13 and the entire IFT client are outside the claim.",
        "technique": "solver-based bounded model checking (Kani/CBMC SAT) of the compiled /repo code, one query per opcode generated from the Opcode enum",
    },
    "C06": {
        "text": "Checksum arithmetic vs the spec for every byte string <= 12 bytes, additivity over padded concatenation, the head checksum-adjustment identity, round4/padding arithmetic, and FontRef::table_data on a symbolic 3-record directory.",
        "design_ref": "DESIGN.md §3 C06",
        "note": "FontBuilder::build's own assembly (ordering, offsets, insertion-order independence, copy_missing_tables) is outside the claim: BTreeMap/Vec churn is out of CBMC's reach. The directory search fields (SearchRange::compute) are NOT decided either: the function computes them in f64 with log2/powi, for which CBMC has no model (a seeded floor->round change there is missed).",
        "technique": "solver-based bounded model checking (Kani/CBMC SAT) of the compiled /repo code against a spec transcription",
    },
    "C08": {
        "text": "cmap format 4 and 12 lookup vs a transcription of the OpenType spec for EVERY code point on symbolic subtables (<= 3 segments / groups), iterators ascend and agree with lookup, first-subtable-wins selection; thorough tier attempts the format-4 builder kernel (1, 2 and a 4-mapping shape) under a 30 GB cap.",
        "design_ref": "DESIGN.md §3 C08",
        "note": "from_mappings' own sort/dedup, format 12 building, format 14, skrifa Charmap and more than 3 segments are outside the claim; reader and writer halves compose by argument, not in one query.",
        "technique": "solver-based bounded model checking (Kani/CBMC SAT) of the compiled /repo code against a spec transcription",
    },
    "C09": {
        "text": "SimpleGlyph point decoding (flags with REPEAT, short/same/long deltas, wrapping accumulation) vs the glyf spec on symbolic glyphs of <= 2 points, for the points() iterator and (for the flag encodings the writer emits) for read_points_fast; totality of both on arbitrary bytes (read_points_fast: 3 points); writer kernels compute_point_deltas / RepeatableFlag / loca format vs the spec.",
        "design_ref": "DESIGN.md §3 C09",
        "note": "Reader half only; the glyf writer (SimpleGlyph FontWrite, GlyfLocaBuilder, composite writing, loca format choice) is outside the claim.",
        "technique": "solver-based bounded model checking (Kani/CBMC SAT) of the compiled /repo code against a spec transcription",
    },
    "C10": {
        "text": "Packed point numbers and packed deltas decode exactly as the spec's algorithm on every byte string <= 8/10 bytes.",
        "design_ref": "DESIGN.md §3 C10",
        "note": "Reader half only: the packed writers (TableWriter is out of CBMC's reach, see C04), IUP optimisation (f64 dynamic program), GlyphVariations building and drawing at a location are outside the claim.",
        "technique": "solver-based bounded model checking (Kani/CBMC SAT) of the compiled /repo code against a spec transcription",
    },
    "C11": {
        "text": "Axis normalisation is total and clamped for ALL i32 inputs and exact/monotone on operand slices; avar segment maps interpolate linearly and exactly; region tent scalars and DeltaSetIndexMap lookups equal their specified values for every coordinate / index.",
        "design_ref": "DESIGN.md §3 C11",
        "note": "VariationStoreBuilder (write side) is outside the claim, so 'every delta set is retrievable through the returned index' is not decided; stores with > 1 region per query.",
        "technique": "solver-based bounded model checking (Kani/CBMC SAT) of the compiled /repo code against exact-rational reference models",
    },
    "C12": {
        "text": "Scratch memory: for every Outline shape (counts <= 3), both hinting modes and every start alignment, a buffer of the advertised size suffices, slices have the documented lengths, are aligned and pairwise disjoint. Path well-formedness: to_path (both path styles) on every 3-point outline with one contour entry and every 4-point and 6-point outline with two contour entries (symbolic end points, coordinates and on/off/cubic flags) emits (MoveTo Segment* Close)* with at most one move/close per contour entry, no segment outside a contour and finite coordinates, whenever it reports success.",
        "design_ref": "DESIGN.md §3 C12",
        "note": "The history/reuse/thread clauses of C12 are NOT decided by this check (whole fonts, Vec growth and thread schedules are out of reach); path well-formedness is decided for outlines of exactly 3, 4 and 6 points only.",
        "technique": "solver-based bounded model checking (Kani/CBMC SAT) of the compiled /repo code (in-crate harness)",
    },
    "C13": {
        "text": "The recursion guard: Decycler one step from an arbitrary state (depth <= 64, any ids), cycle detection for every periodic id sequence of period <= 3 within 2p+1 levels, exact depth limit, no false cycle on distinct ids.",
        "design_ref": "DESIGN.md §3 C13",
        "note": "Callback balance (push/pop nesting) of traverse_with_callbacks over whole paint graphs is NOT decided; a mutant dropping one pop_* is not detected.",
        "technique": "solver-based bounded model checking (Kani/CBMC SAT) of the compiled /repo code (in-crate harness)",
    },
    "C14": {
        "text": "BitPage with fully symbolic contents: insert/remove/contains/insert_range/remove_range/clear/union/intersect/subtract/iter/iter_after/iter_ranges/len against the 512-element mathematical set, one operation from an arbitrary page; BitSet over two pages with a concrete layout (majors {0,2} stored out of order, and {0,1}) and symbolic contents: contains / insert / remove / len and the first range of iter_ranges against the mathematical set (set-level remove_range: single-element ranges inside one word in the quick tier, general ranges only in the thorough tier).",
        "design_ref": "DESIGN.md §3 C14",
        "note": "Operation sequences through the public IntSet API, BitSet page maps, inverted sets, RangeSet and the sparse-bit-set codec are outside the claim (symbolic Vec insertion / VecDeque growth did not finish in 15 min).",
        "technique": "solver-based bounded model checking (Kani/CBMC SAT) of the compiled /repo code (in-crate harness, one inductive step from an arbitrary valid page)",
    },
    "C16": {
        "text": "Coverage format 1/2 and ClassDef format 1/2 lookups equal the spec for EVERY glyph id on symbolic tables (<= 6 glyphs / 3 ranges); iterators agree with get; totality on arbitrary bytes.",
        "design_ref": "DESIGN.md §3 C16",
        "note": "Reader side only: the layout builders and overflow splitting in write-fonts — the property's main subject — are outside the claim; a splitting off-by-one is not detected.",
        "technique": "solver-based bounded model checking (Kani/CBMC SAT) of the compiled /repo code against a spec transcription",
    },
    "C20": {
        "text": "A reading of the same solver runs: every arithmetic-overflow check and debug assertion on the paths explored for C01/C02/C06-C16 (Kani models the overflow-checked dev profile), plus the E2 full-width obligations of the fixed-point kernels. A candidate counts only after the native dev-profile replay panics with the same message.",
        "design_ref": "DESIGN.md §3 C20",
        "note": "Quick tier: hand-written harnesses, the 256 one-step opcode queries and a rotated window of accessor queries; thorough adds the generated table walkers and two-step opcode queries. The auto-hinter, CFF hinter, subsetting and patch code are outside the claim.",
        "technique": "solver-based bounded model checking (Kani/CBMC SAT) of the compiled /repo code + MIR->SMT (z3) for the arithmetic leaves; native replay of every counterexample",
    },

    "C15": {
        "text": "Bounded model checking of the real font-types code: every scalar type's byte round trip, ordering, 24-bit saturation, "
                "fixed-point conversions, float round trips (all 2^16 / 2^32 values, CBMC's IEEE model) and Mul (all 2^64 operand pairs) are "
                "decided at full machine width against exact-integer reference models; Div and mul_div are decided at full width (all 2^64 / 2^96 operand tuples) by the MIR->SMT engine and on operand slices by CBMC.",
        "design_ref": "DESIGN.md §3 C15",
        "note": "Trusted: rustc/Kani translation, CBMC+cadical, the few-line reference models in harness/k_types/src/*.rs. Trusted for E2: the MIR->SMT translator (validated every run against the real functions on concrete vectors and cross-checked int vs bit-vector encoding) and z3 5.1. serde/Display impls and kurbo OtRound impls are not covered.",
        "technique": "solver-based bounded model checking (Kani/CBMC SAT) of the compiled crate against exact-integer reference models + MIR->SMT (z3 Int encoding) at full width for Mul/Div/mul_div",
    },
}
NOT_APPLICABLE = {
    "C04": "attempted and withdrawn: every write path goes through TableWriter's Vec<u8>/HashMap; the smallest query (Hhea: write_into -> bytes -> read -> compare getters, RandomState stubbed, no packing graph) exhausted 25 GB in CBMC and was OOM-killed at 58 GB; dump_table itself (packing graph) was already out of reach",
    "C03": "oracle is the FreeType C library behind FFI (fauntlet); it cannot be executed symbolically and no formal spec of its hinting exists — the fixed-point primitives it shares with skrifa are decided under C15/C20",
    "C05": "Graph::pack_objects is BTreeMap/HashMap/BinaryHeap/VecDeque over heap nodes and its interesting paths need > 64 KiB of objects; even dump_table(Maxp) exceeded 6 min / 4 GB in CBMC",
    "C07": "quantifies over thread interleavings, hash seeds and process history: Kani has no threads and does not model RandomState seeding; the code is the packing graph of C05",
    "C17": "klippa::subset_font is whole-font processing over IntSet/HashMap/Vec plans and a serializer object graph; every ingredient was out of reach for CBMC individually",
    "C18": "patch application = brotli decoder (FFI / 10k-line decoder) + BTreeMap/HashMap-driven font re-assembly + fault schedules over decoder calls; nothing table-sized can be posed",
    "C19": "patch selection runs on IntSet<u32> (sparse-bit-set decode did not finish in 15 min on 4 bytes), BTreeMap<Tag, RangeSet<Fixed>>, HashMap<String,_>, String URI templates",
}
