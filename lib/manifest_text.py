HOOK_COMMITS = []
ENGINES = [
    {"name": "kani", "path": "harness/", "serves_properties": ["C15"],
     "kind_free_text": "Kani 0.68 / CBMC 6.11 / cadical bounded model checking of the compiled /repo crates (harness crates with path dependencies on /repo, rebuilt from the working tree on every run)"},
]
NOTES = ("Every check is `./vf check <ID>`: regenerates harness sources / dispatch tables from /repo, compiles the harness crates "
         "against /repo's working tree with cargo kani, poses one solver query per harness, replays any counterexample natively "
         "(dev + release) before printing VIOLATION, and writes evidence/<ID>.json. exit 2 = machinery problem (never a verdict).")
CHECKS = {
    "C15": {
        "text": "Bounded model checking of the real font-types code: every scalar type's byte round trip, ordering, 24-bit saturation, "
                "fixed-point conversions, float round trips (all 2^16 / 2^32 values, CBMC's IEEE model) and Mul (all 2^64 operand pairs) are "
                "decided at full machine width against exact-integer reference models; Div and mul_div are decided on stated operand slices by CBMC.",
        "design_ref": "DESIGN.md §3 C15",
        "note": "Trusted: rustc/Kani translation, CBMC+cadical, the few-line reference models in harness/k_types/src/*.rs. Div/mul_div at full width "
                "are outside the CBMC claim (slices: see evidence bounds). serde/Display impls and kurbo OtRound impls are not covered.",
        "technique": "solver-based bounded model checking (Kani/CBMC SAT) of the compiled crate against exact-integer reference models",
    },
}
NOT_APPLICABLE = {
    "C03": "oracle is the FreeType C library behind FFI (fauntlet); it cannot be executed symbolically and no formal spec of its hinting exists — the fixed-point primitives it shares with skrifa are decided under C15/C20",
    "C05": "Graph::pack_objects is BTreeMap/HashMap/BinaryHeap/VecDeque over heap nodes and its interesting paths need > 64 KiB of objects; even dump_table(Maxp) exceeded 6 min / 4 GB in CBMC",
    "C07": "quantifies over thread interleavings, hash seeds and process history: Kani has no threads and does not model RandomState seeding; the code is the packing graph of C05",
    "C17": "klippa::subset_font is whole-font processing over IntSet/HashMap/Vec plans and a serializer object graph; every ingredient was out of reach for CBMC individually",
    "C18": "patch application = brotli decoder (FFI / 10k-line decoder) + BTreeMap/HashMap-driven font re-assembly + fault schedules over decoder calls; nothing table-sized can be posed",
    "C19": "patch selection runs on IntSet<u32> (sparse-bit-set decode did not finish in 15 min on 4 bytes), BTreeMap<Tag, RangeSet<Fixed>>, HashMap<String,_>, String URI templates",
}
