"""E1 engine: run Kani/CBMC harnesses from a harness crate against /repo's working tree.

One codegen build per crate, then one `cargo kani --harness <h> --exact` process per harness on a
worker pool, each under `timeout` and `ulimit -v`.  Results are read from Kani's --export-json.
"""
import concurrent.futures as cf
import hashlib
import json
import os
import re
import shutil
import subprocess
import time

VERIF = os.path.dirname(os.path.dirname(os.path.abspath(__file__)))
REPO = os.environ.get("VERIF_REPO", "/repo")
BUILD = os.path.join(VERIF, ".build")
GUARD = "googlefonts_fontations_verif"

ENV = dict(os.environ)
ENV.update({"CARGO_NET_OFFLINE": "true", "CARGO_TERM_COLOR": "never"})
ENV.pop("RUSTUP_TOOLCHAIN", None)


def sh(cmd, cwd=None, env=None, timeout=None, mem_gb=None):
    """run a shell command, return (rc, output, seconds, timed_out)"""
    pre = ""
    if mem_gb:
        pre = "ulimit -v %d; " % (mem_gb * 1024 * 1024)
    t0 = time.time()
    p = subprocess.Popen(["bash", "-c", pre + cmd], cwd=cwd, env=env or ENV,
                         stdout=subprocess.PIPE, stderr=subprocess.STDOUT, text=True,
                         start_new_session=True)
    try:
        out, _ = p.communicate(timeout=timeout)
        return p.returncode, out, time.time() - t0, False
    except subprocess.TimeoutExpired:
        try:
            os.killpg(p.pid, 9)
        except ProcessLookupError:
            pass
        out, _ = p.communicate()
        return -9, out, time.time() - t0, True


class Crate:
    """a harness crate: either an external crate under /verif/harness/<name> with a path
    dependency on /repo, or a /repo crate with an in-crate hook (harness code in
    /verif/harness/incrate, pulled in under --cfg GUARD)."""

    def __init__(self, name, path, incrate=False, package=None, features=None, stubbing=False):
        self.name = name
        self.path = path
        self.incrate = incrate
        self.package = package
        self.features = features
        self.stubbing = stubbing
        self.target_dir = os.path.join(BUILD, "kani_" + name + ("" if REPO == "/repo" else "_alt"))

    def kani_env(self):
        e = dict(ENV)
        flags = e.get("RUSTFLAGS", "")
        if self.incrate:
            flags = (flags + " --cfg " + GUARD).strip()
        if flags:
            e["RUSTFLAGS"] = flags
        return e

    def base_cmd(self, slot=None):
        td = self.target_dir if slot is None else "%s_w%d" % (self.target_dir, slot)
        c = "cargo kani --target-dir %s --lib" % td
        if self.incrate:
            c = "cargo kani -p %s --target-dir %s --lib" % (self.package, td)
        if self.features is not None:
            c += " --no-default-features"
            if self.features:
                c += " --features " + ",".join(self.features)
        if self.stubbing:
            c += " -Z stubbing"
        return c

    def prepare(self):
        if not self.incrate:
            # Cargo.toml is generated from Cargo.toml.in so that the checks can also be pointed at a
            # scratch worktree (VERIF_REPO=<dir>); by default the path dependencies are /repo/<crate>
            tin = os.path.join(self.path, "Cargo.toml.in")
            if os.path.exists(tin):
                text = open(tin).read().replace("@REPO@", REPO)
                tp = os.path.join(self.path, "Cargo.toml")
                if not os.path.exists(tp) or open(tp).read() != text:
                    open(tp, "w").write(text)
            shutil.copyfile(os.path.join(REPO, "Cargo.lock"), os.path.join(self.path, "Cargo.lock"))

    def build(self, log):
        """type-check the harness crate against /repo's working tree (native `cargo check` of the
        same sources; Kani itself compiles per harness, because the harness filter is part of
        the compiler invocation). returns (ok, output, secs)"""
        self.prepare()
        if self.incrate:
            cmd = "cargo check --offline -p %s --lib --tests --target-dir %s" % (
                self.package, os.path.join(BUILD, "check_" + self.name))
        else:
            cmd = "cargo check --offline --lib --target-dir %s" % os.path.join(BUILD, "check_" + self.name)
        rc, out, secs, to = sh(cmd, cwd=self.path, env=self.kani_env(), timeout=3600)
        log("typecheck %s: rc=%s %.0fs" % (self.name, rc, secs))
        return rc == 0, out, secs


# harness name -> extra CBMC options (the `// @cbmc <options>` annotation of a harness)
EXTRA_CBMC_ARGS = {}
# harness names whose first solver run already asks for counterexamples (`// @playback-first`)
PLAYBACK_FIRST = set()


def run_harness(crate, harness, timeout_s, mem_gb, outdir, playback=False, slot=None):
    os.makedirs(outdir, exist_ok=True)
    tag = hashlib.sha1(harness.encode()).hexdigest()[:10]
    jpath = os.path.join(outdir, "%s_%s.json" % (harness.replace("::", "__")[-80:], tag))
    if os.path.exists(jpath):
        os.remove(jpath)
    cmd = "%s --harness '%s' --exact -Z unstable-options --export-json %s" % (
        crate.base_cmd(slot), harness, jpath)
    if playback:
        cmd += " -Z concrete-playback --concrete-playback=print"
    if EXTRA_CBMC_ARGS.get(harness):
        # (must come last: kani hands everything after --cbmc-args to CBMC)
        cmd += " --cbmc-args " + EXTRA_CBMC_ARGS[harness]
    rc, out, secs, to = sh(cmd, cwd=crate.path, env=crate.kani_env(), timeout=timeout_s,
                           mem_gb=mem_gb)
    res = {"harness": harness, "crate": crate.name, "rc": rc, "secs": round(secs, 2),
           "timed_out": to, "checks": [], "status": "error", "stats": {}, "raw_tail": out[-3000:]}
    if playback:
        res["playback"] = parse_playback(out)
    if to:
        res["status"] = "timeout"
        return res
    data = None
    if os.path.exists(jpath):
        try:
            data = json.load(open(jpath))
        except Exception:
            data = None
    if not data or not data.get("verification_results", {}).get("results"):
        if "out of memory" in out.lower() or "std::bad_alloc" in out or "memory exhausted" in out.lower():
            res["status"] = "oom"
        return res
    try:
        res["goto_file"] = data["harness_metadata"][0]["goto_file"].replace(".symtab.out", ".out")
    except Exception:
        res["goto_file"] = None
    r = data["verification_results"]["results"][0]
    res["checks"] = r.get("checks", [])
    for c in data.get("cbmc", []):
        res["stats"] = c.get("cbmc_stats", {})
    res["kani_status"] = r.get("status")
    failed = [c for c in res["checks"] if c["status"].upper() in ("FAILURE", "FAILED")]
    undet = [c for c in res["checks"] if c["status"].upper() in ("UNDETERMINED", "SOLVER_ERROR")]
    covers = [c for c in res["checks"] if c.get("category") == "cover"]
    res["n_checks"] = len(res["checks"])
    res["n_failed"] = len(failed)
    res["n_discharged"] = len([c for c in res["checks"] if c["status"].upper() in ("SUCCESS", "SATISFIED", "UNREACHABLE")])
    fns = set()
    files = set()
    for c in res["checks"]:
        f = ((c.get("location") or {}).get("file") or "")
        if c.get("function") and ("/" in f) and not f.startswith("/home/runner") and "/verif/harness" not in f and not f.startswith("src/"):
            fns.add(c["function"])
            # repo-relative source file of the check (in-crate runs report workspace-relative paths)
            rel = f[len(REPO) + 1:] if f.startswith(REPO + "/") else re.sub(r"^(\.\./)+repo/", "", f)
            if not rel.startswith("/") and not rel.startswith("."):
                files.add(rel)
    res["functions"] = sorted(fns)
    res["files"] = sorted(files)
    res["covers_total"] = len(covers)
    res["covers_sat"] = len([c for c in covers if c["status"].upper() == "SATISFIED"])
    # keep only what triage needs (a 256-arm dispatch harness carries > 6000 checks)
    res["checks"] = failed + undet[:20]
    if failed:
        res["status"] = "failed"
    elif undet:
        res["status"] = "undetermined"
    elif str(r.get("status")).lower() == "success":
        res["status"] = "ok"
    else:
        # Kani says FAILED but no individual check failed: unsupported construct reached, CBMC
        # error or out of memory -- a machinery problem, never a verdict
        res["status"] = "error"
        m = re.search(r"(Failed Checks:[^\n]*|unsupported[^\n]*|CBMC failed[^\n]*|error:[^\n]*)", out)
        res["why"] = m.group(1)[:200] if m else "verification did not succeed but no check failed"
    return res


def unwind_counterexample(res, unwind, timeout_s=600, mem_gb=10):
    """Kani's concrete playback has no test for a failing *unwinding assertion*. Ask CBMC itself for
    the trace of that property on the goto binary Kani built, and read the values of the harness'
    kani::any() calls out of it (the same place Kani takes them from).
    -> list of byte lists (little endian, one per any()), or None"""
    gf = res.get("goto_file")
    if not gf or not os.path.exists(gf):
        return None
    out_json = gf + ".unwind_trace.json"
    cmd = ("cbmc --no-malloc-may-fail --no-undefined-shift-check --no-signed-overflow-check --nan-check "
           "--no-self-loops-to-assumptions --no-pointer-primitive-check --object-bits 16 --unwind %d "
           "--unwinding-assertions --sat-solver cadical %s --trace --json-ui > %s 2>/dev/null"
           % (unwind, gf, out_json))
    sh(cmd, timeout=timeout_s, mem_gb=mem_gb)
    try:
        data = json.load(open(out_json))
    except Exception:
        return None
    finally:
        try:
            os.remove(out_json)
        except OSError:
            pass
    for item in data:
        for r in (item.get("result") or []) if isinstance(item, dict) else []:
            if r.get("status") != "FAILURE" or ".unwind." not in r.get("property", ""):
                continue
            vals = []
            for st in r.get("trace", []):
                if st.get("stepType") != "assignment":
                    continue
                fn = (st.get("sourceLocation") or {}).get("function", "")
                # scalars come from kani::any_raw_internal::<T>, arrays from kani::any_raw_array::<T, N>
                # (one aggregate assignment, which has no `binary`, followed by one assignment per element)
                if st.get("lhs", "").startswith("goto_symex$$return_value$$") and fn.startswith("kani::any_raw_"):
                    b = (st.get("value") or {}).get("binary")
                    if not b:
                        continue
                    if len(b) % 8:
                        return None
                    n = int(b, 2)
                    vals.append(list(n.to_bytes(len(b) // 8, "little")))
            if vals:
                return vals
    return None


PB_RE = re.compile(
    r"/// Check for `(?P<cat>[^`]*)`: \"(?P<desc>.*?)\"\s*\n\s*\n?#\[test\]\s*\nfn (?P<fn>\w+)\(\) \{(?P<body>.*?)kani::concrete_playback_run",
    re.S)


def parse_playback(out):
    """-> list of {category, description, values: [[bytes...]...]} (one per failing/covered check)"""
    items = []
    for m in PB_RE.finditer(out):
        vals = []
        for vm in re.finditer(r"vec!\[([0-9, ]*)\],", m.group("body")):
            s = vm.group(1).strip()
            vals.append([int(x) for x in s.split(",") if x.strip()] if s else [])
        desc = re.sub(r"\s*\n\s*", " ", m.group("desc"))
        items.append({"category": m.group("cat"), "description": desc, "values": vals})
    return items


def run_many(jobs, workers, log, playback=False, deadline=None, followup=None, followup_results=None):
    """jobs: list of (crate, harness, timeout_s, mem_gb, outdir). Returns results in order.
    `deadline` (time.time() value): queries not started by then are returned as 'skipped', and a
    running query's cap is cut to the time remaining (tier wall-clock budget)."""
    import queue
    results = [None] * len(jobs)
    slots = queue.Queue()
    for i in range(workers):
        slots.put(i)

    def one(j):
        s = slots.get()
        try:
            if deadline is not None:
                left = deadline - time.time()
                if left < 20:
                    return {"harness": j[1], "crate": j[0].name, "rc": None, "secs": 0.0, "timed_out": False,
                            "checks": [], "status": "skipped", "stats": {}, "raw_tail": ""}
                j = (j[0], j[1], min(j[2], int(left)), j[3], j[4])
            # Concrete playback in the first solver run only for harnesses annotated
            # `// @playback-first` (slow kernels whose second, counterexample-producing run would not
            # fit the tier budget). Requesting it for every query was tried and withdrawn: with
            # --trace CBMC emits a trace for each of Kani's (failing-by-design) reachability checks,
            # and 14 parallel kani-driver processes parsing those exhausted the 62 GB of RAM.
            return run_harness(*j, playback=(j[1] in PLAYBACK_FIRST), slot=s)
        finally:
            slots.put(s)

    def one_pb(j):
        # counterexample request for a harness that just failed: runs as soon as a worker is free,
        # ahead of the remaining queue (it is what turns a failing check into a reportable violation)
        s = slots.get()
        try:
            return run_harness(*j, playback=True, slot=s)
        finally:
            slots.put(s)

    with cf.ThreadPoolExecutor(max_workers=workers + 2) as ex:
        futs = {ex.submit(one, j): i for i, j in enumerate(jobs)}
        pending = set(futs)
        pbf = {}
        done = 0
        while pending or pbf:
            fin, _ = cf.wait(list(pending) + list(pbf), return_when=cf.FIRST_COMPLETED)
            for f in fin:
                if f in pbf:
                    name = pbf.pop(f)
                    if followup_results is not None:
                        followup_results[name] = f.result()
                    continue
                pending.discard(f)
                i = futs[f]
                results[i] = f.result()
                done += 1
                r = results[i]
                if followup is not None:
                    fj = followup(r)
                    if fj is not None:
                        pbf[ex.submit(one_pb, fj)] = r["harness"]
                log("[%d/%d] %-60s %-12s %6.1fs checks=%s failed=%s" % (
                    done, len(jobs), r["harness"][-60:], r["status"], r["secs"],
                    r.get("n_checks", "-"), r.get("n_failed", "-")))
    return results
