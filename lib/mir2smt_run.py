#!/usr/bin/env python3-vt
"""E2 runner: dump MIR of /repo crates with the nightly toolchain, translate the target functions,
discharge their obligations with z3 (5.1, z3py) and print a JSON report on stdout.

usage: mir2smt_run.py <PROPERTY> <tier>
"""
import json
import os
import re
import subprocess
import sys
import time

sys.path.insert(0, os.path.dirname(os.path.abspath(__file__)))
import z3  # noqa: E402
from mir2smt_core import Engine, Unsupported, parse_mir, base_type  # noqa: E402

VERIF = os.path.dirname(os.path.dirname(os.path.abspath(__file__)))
REPO = os.environ.get("VERIF_REPO", "/repo")
BUILD = os.path.join(VERIF, ".build")


def dump_mir(crate, extra=""):
    d = os.path.join(REPO, crate)
    env = dict(os.environ)
    env.update({"CARGO_NET_OFFLINE": "true", "CARGO_TARGET_DIR": os.path.join(BUILD, "mir_" + crate.replace("-", "_"))})
    env.pop("RUSTFLAGS", None)
    # force a fresh rustc invocation without touching the source tree: a changing --cfg does it
    stamp = "--cfg verif_mir_stamp_%d" % int(time.time() * 1000)
    cmd = "cargo +nightly rustc --offline --lib %s -- -Zunpretty=mir -C debug-assertions=on -C overflow-checks=on %s" % (extra, stamp)
    p = subprocess.run(["bash", "-c", cmd], cwd=d, env=env, stdout=subprocess.PIPE, stderr=subprocess.PIPE, text=True)
    if p.returncode != 0 or len(p.stdout) < 1000:
        raise SystemExit("MIR dump of %s failed: %s" % (crate, p.stderr[-2000:]))
    return p.stdout


class World:
    def __init__(self):
        self.dump_s = 0.0
        self.ft = self.load("font-types")
        self.sk = []
        self.all = list(self.ft)

    def load(self, crate):
        t0 = time.time()
        r = parse_mir(dump_mir(crate))
        self.dump_s += time.time() - t0
        return r

    def need_skrifa(self):
        if not self.sk:
            self.sk = self.load("skrifa")
            self.all = self.ft + self.sk

    def find(self, name, sig=None, where=None):
        pool = self.all if where is None else where
        for f in pool:
            if f.ctfe:
                continue
            last = f.name.split("::")[-1]
            if last != name and f.name != name:
                continue
            if sig is not None:
                ptys = [base_type(t) for _, t in f.params]
                if ptys != sig:
                    continue
            return f
        return None

    def resolver(self):
        def res(callee, args, tys):
            callee = re.sub(r"::<[^>]*>", "", callee)
            m = re.match(r"^<(.+) as (\w+)>::(\w+)$", callee)
            if m:
                tname, fn = base_type(m.group(1)), m.group(3)
                for f in self.all:
                    if f.ctfe or f.name.split("::")[-1] != fn:
                        continue
                    ptys = [base_type(t) for _, t in f.params]
                    if ptys and ptys[0] == tname and len(ptys) == len(args):
                        return f
                return None
            parts = callee.split("::")
            fn = parts[-1]
            owner = parts[-2] if len(parts) > 1 else None
            cands = []
            for f in self.all:
                if f.ctfe or f.name.split("::")[-1] != fn or len(f.params) != len(args):
                    continue
                sig = " ".join(t for _, t in f.params) + " " + f.ret
                score = 0
                if owner and re.search(r"\b%s\b" % re.escape(owner), sig):
                    score += 2
                if owner and owner in f.name:
                    score += 1
                if owner in (None, "math") and ("hint::math" in f.name or "::" not in f.name):
                    score += 1
                cands.append((score, f))
            if not cands:
                return None
            cands.sort(key=lambda x: -x[0])
            if len(cands) > 1 and cands[0][0] == cands[1][0] and cands[0][1] is not cands[1][1]:
                # ambiguous: same name, same arity, nothing to tell them apart
                sigs = set(" ".join(t for _, t in c[1].params) for c in cands if c[0] == cands[0][0])
                if len(sigs) > 1:
                    return None
            return cands[0][1]
        return res


def I(v):
    return z3.IntVal(v)


def haz_shift(x, k):
    """exact x / 2^k rounded half away from zero (Int)"""
    h = 1 << (k - 1)
    return z3.If(x >= 0, (x + h) / (1 << k), -((-x + h) / (1 << k)))


def absz(x):
    return z3.If(x >= 0, x, -x)


def rounded_quotient(n, d, q):
    an, ad, aq = absz(n), absz(d), absz(q)
    sign_ok = z3.Or(q == 0, (q < 0) == z3.Xor(n < 0, d < 0))
    return z3.And(sign_ok, 2 * aq * ad + ad > 2 * an, 2 * aq * ad <= 2 * an + ad)


def fits_i32(n, d):
    """|round(n/d)| <= i32::MAX  <=>  2|n| + |d| < 2^32 |d|"""
    return 2 * absz(n) + absz(d) < (1 << 32) * absz(d)


I32 = ("int", True, 32)
I16 = ("int", True, 16)


def targets():
    """each target: name, finder, inputs (list of (kind, type)), post(ins, out) -> list of (desc, formula-that-must-hold),
    c20: True if the function's own overflow asserts are reachable with arbitrary arguments from font data"""
    T = []

    def nt(x):
        return [x]

    # ---- font-types ------------------------------------------------------------------
    for tyname in ("Fixed", "F26Dot6"):
        T.append(dict(id="%s::mul" % tyname, fn=("mul", [tyname, tyname]), ins=["nt32", "nt32"], props=["C15", "C20"],
                      post=lambda i, o: [("product / 2^16 rounded half away from zero whenever representable",
                                          z3.Implies(z3.And(haz_shift(i[0] * i[1], 16) >= -(1 << 31), haz_shift(i[0] * i[1], 16) < (1 << 31)),
                                                     o == haz_shift(i[0] * i[1], 16)))]))
        T.append(dict(id="%s::div" % tyname, fn=("div", [tyname, tyname]), ins=["nt32", "nt32"], props=["C15", "C20"],
                      post=lambda i, o: [
                          ("b == 0 saturates to +-0x7FFFFFFF", z3.Implies(i[1] == 0, o == z3.If(i[0] < 0, I(-0x7FFFFFFF), I(0x7FFFFFFF)))),
                          ("exact (a << 16) / b rounded half away from zero whenever representable",
                           z3.Implies(z3.And(i[1] != 0, fits_i32(i[0] * 65536, i[1])), rounded_quotient(i[0] * 65536, i[1], o)))]))
        T.append(dict(id="%s::mul_div" % tyname, fn=("mul_div", [tyname, tyname, tyname]), ins=["nt32", "nt32", "nt32"], props=["C15", "C20"],
                      post=lambda i, o: [
                          ("b == 0 saturates", z3.Implies(i[2] == 0, o == z3.If(z3.Xor(i[0] < 0, i[1] < 0), I(-0x7FFFFFFF), I(0x7FFFFFFF)))),
                          ("exact s * a / b rounded half away from zero whenever representable",
                           z3.Implies(z3.And(i[2] != 0, fits_i32(i[0] * i[1], i[2])), rounded_quotient(i[0] * i[1], i[2], o)))]))
    T.append(dict(id="Fixed::to_i32", fn=("to_i32", ["Fixed"]), ins=["nt32"], props=["C15", "C20"], out="i32",
                  post=lambda i, o: [("floor((x + 0x8000) / 2^16)", z3.Implies(i[0] <= (1 << 31) - 1 - 0x8000, o == (i[0] + 0x8000) / 65536))]))
    T.append(dict(id="Fixed::to_f26dot6", fn=("to_f26dot6", ["Fixed"]), ins=["nt32"], props=["C15", "C20"],
                  post=lambda i, o: [("floor((x + 0x200) / 2^10)", z3.Implies(i[0] <= (1 << 31) - 1 - 0x200, o == (i[0] + 0x200) / 1024))]))
    T.append(dict(id="Fixed::to_f2dot14", fn=("to_f2dot14", ["Fixed"]), ins=["nt32"], props=["C15", "C20"],
                  post=lambda i, o: [("add 2, arithmetic shift right by 2 (when it fits 16 bits)",
                                      z3.Implies(z3.And(i[0] <= (1 << 31) - 3, (i[0] + 2) / 4 >= -(1 << 15), (i[0] + 2) / 4 < (1 << 15)), o == (i[0] + 2) / 4))]))
    T.append(dict(id="F26Dot6::to_i32", fn=("to_i32", ["F26Dot6"]), ins=["nt32"], props=["C15", "C20"], out="i32",
                  post=lambda i, o: [("floor((x + 32) / 64)", z3.Implies(i[0] <= (1 << 31) - 33, o == (i[0] + 32) / 64))]))
    T.append(dict(id="F2Dot14::to_fixed", fn=("to_fixed", ["F2Dot14"]), ins=["nt16"], props=["C15", "C20"],
                  post=lambda i, o: [("value * 4, exact", o == i[0] * 4)]))
    for tyname in ("Fixed", "F26Dot6"):
        fb = 16 if tyname == "Fixed" else 6
        T.append(dict(id="%s::neg" % tyname, fn=("neg", [tyname]), ins=["nt32"], props=["C20leaf"],
                      post=lambda i, o: [("-x", z3.Implies(i[0] != -(1 << 31), o == -i[0]))]))
        T.append(dict(id="%s::abs" % tyname, fn=("abs", [tyname]), ins=["nt32"], props=["C20leaf"],
                      post=lambda i, o: [("|x|", z3.Implies(i[0] != -(1 << 31), o == absz(i[0])))]))
    # ---- skrifa hinting math ------------------------------------------------------------
    M = "hint::math"
    T.append(dict(id="hint::math::floor", fn=("floor", ["i32"]), where="sk", ins=["i32"], out="i32", props=["C20leaf"],
                  post=lambda i, o: [("largest multiple of 64 <= x", z3.And(o % 64 == 0, o <= i[0], i[0] - o < 64))]))
    T.append(dict(id="hint::math::round", fn=("round", ["i32"]), where="sk", ins=["i32"], out="i32", props=["C20leaf"],
                  post=lambda i, o: [("floor(x + 32)", z3.Implies(i[0] <= (1 << 31) - 33, z3.And(o % 64 == 0, o - i[0] > -32, o - i[0] <= 32)))]))
    T.append(dict(id="hint::math::ceil", fn=("ceil", ["i32"]), where="sk", ins=["i32"], out="i32", props=["C20leaf"],
                  post=lambda i, o: [("smallest multiple of 64 >= x", z3.Implies(i[0] <= (1 << 31) - 64, z3.And(o % 64 == 0, o >= i[0], o - i[0] < 64)))]))
    T.append(dict(id="hint::math::round_pad", fn=("round_pad", ["i32", "i32"]), where="sk", ins=["i32", "i32"], out="i32", props=["C20leaf"],
                  post=lambda i, o: []))
    T.append(dict(id="hint::math::mul", fn=("mul", ["i32", "i32"]), where="sk", ins=["i32", "i32"], out="i32", props=["C20leaf"],
                  post=lambda i, o: [("FT_MulFix", z3.Implies(z3.And(haz_shift(i[0] * i[1], 16) >= -(1 << 31), haz_shift(i[0] * i[1], 16) < (1 << 31)), o == haz_shift(i[0] * i[1], 16)))]))
    T.append(dict(id="hint::math::div", fn=("div", ["i32", "i32"]), where="sk", ins=["i32", "i32"], out="i32", props=["C20leaf"],
                  post=lambda i, o: [("FT_DivFix", z3.Implies(z3.And(i[1] != 0, fits_i32(i[0] * 65536, i[1])), rounded_quotient(i[0] * 65536, i[1], o)))]))
    T.append(dict(id="hint::math::mul_div", fn=("mul_div", ["i32", "i32", "i32"]), where="sk", ins=["i32", "i32", "i32"], out="i32", props=["C20leaf"],
                  post=lambda i, o: [("FT_MulDiv", z3.Implies(z3.And(i[2] != 0, fits_i32(i[0] * i[1], i[2])), rounded_quotient(i[0] * i[1], i[2], o)))]))
    T.append(dict(id="hint::math::mul_div_no_round", fn=("mul_div_no_round", ["i32", "i32", "i32"]), where="sk", ins=["i32", "i32", "i32"], out="i32", props=["C20leaf"],
                  post=lambda i, o: [("FT_MulDiv_No_Round: truncated |a||b|/|c| with the product sign, when representable",
                                      z3.Implies(z3.And(i[2] != 0, i[0] != -(1 << 31), i[1] != -(1 << 31), i[2] != -(1 << 31),
                                                        absz(i[0]) * absz(i[1]) < (1 << 31) * absz(i[2])),
                                                 z3.And(absz(o) * absz(i[2]) <= absz(i[0]) * absz(i[1]),
                                                        absz(i[0]) * absz(i[1]) < (absz(o) + 1) * absz(i[2]),
                                                        z3.Or(o == 0, (o < 0) == z3.Xor(z3.Xor(i[0] < 0, i[1] < 0), i[2] < 0)))))]))
    T.append(dict(id="hint::math::mul14", fn=("mul14", ["i32", "i32"]), where="sk", ins=["i32", "i32"], out="i32", props=["C20leaf"],
                  post=lambda i, o: [("TT_MulFix14: (a*b + 0x2000 + sign) >> 14, when representable",
                                      z3.Implies(z3.And((i[0] * i[1] + 0x2000 + z3.If(i[0] * i[1] < 0, -1, 0)) / 16384 >= -(1 << 31),
                                                        (i[0] * i[1] + 0x2000 + z3.If(i[0] * i[1] < 0, -1, 0)) / 16384 < (1 << 31)),
                                                 o == (i[0] * i[1] + 0x2000 + z3.If(i[0] * i[1] < 0, -1, 0)) / 16384))]))
    T.append(dict(id="RoundState::round", fn=("round", ["RoundState", "F26Dot6"]), where="sk", ins=["roundstate", "nt32"], props=["C20leaf"], tier="thorough",
                  post=lambda i, o: []))
    return T


def mk_inputs(eng, kinds, signs=None):
    """symbolic inputs. With `signs` (one entry per scalar input: -1/0/1/None, or an int for the
    RoundState mode) inputs are specialised to a sign case, negative ones written as -m with
    m > 0 (change of variables: keeps every product in positive variables for z3's nla)."""
    ins, flat, case = [], [], []
    k = 0

    def scalar(ty, name, sg):
        if sg is None or eng.mode == "bv":
            return eng.fresh_var(ty, name)
        if sg == 0:
            return z3.IntVal(0)
        bits = ty[2]
        if sg < 0:
            m = z3.Int("m_" + name)
            eng.side.append(z3.And(m > 0, m <= (1 << (bits - 1))))
            return -m
        v = z3.Int("p_" + name)
        eng.side.append(z3.And(v > 0, v < (1 << (bits - 1))))
        return v

    for n, kd in enumerate(kinds):
        sg = signs[k] if signs else None
        if kd in ("nt32", "nt16"):
            v = scalar(I32 if kd == "nt32" else I16, "in%d" % n, sg)
            ins.append([v])
            flat.append(v)
            k += 1
        elif kd == "i32":
            v = scalar(I32, "in%d" % n, sg)
            ins.append(v)
            flat.append(v)
            k += 1
        elif kd == "i32any":
            v = eng.fresh_var(I32, "in%d" % n)
            ins.append(v)
            flat.append(v)
            k += 1
        elif kd == "roundstate":
            if sg is None:
                mode = eng.fresh_var(("int", True, 64), "mode")
                eng.side.append(z3.And(mode >= 0, mode <= 7))
            else:
                mode = z3.IntVal(sg) if eng.mode == "int" else z3.BitVecVal(sg, 64)
            th, ph, pe = (eng.fresh_var(I32, x) for x in ("threshold", "phase", "period"))
            ins.append([mode, th, ph, pe])
            flat += [mode, th, ph, pe]
            k += 1
    return ins, flat


def sign_cases(kinds):
    import itertools
    opts = []
    for kd in kinds:
        if kd in ("nt32", "nt16", "i32"):
            opts.append([-1, 0, 1])
        elif kd == "roundstate":
            # Super / Super45 (6, 7) read threshold/phase/period, which only SROUND/S45ROUND can set
            # and only to a few values: an unconstrained RoundState would raise false alarms, so those
            # two modes are left to the Kani two-step (SROUND ; ROUND) harnesses
            opts.append(list(range(6)))
        else:
            opts.append([None])
    return list(itertools.product(*opts))


def check(formula, side, timeout_ms):
    s = z3.Solver()
    s.set("timeout", timeout_ms)
    for c in side:
        s.add(c)
    s.add(formula)
    t0 = time.time()
    r = s.check()
    dt = time.time() - t0
    model = s.model() if r == z3.sat else None
    return str(r), dt, model


def unwrap(x):
    return x[0] if isinstance(x, list) and len(x) == 1 else x


def main():
    prop = sys.argv[1] if len(sys.argv) > 1 else "C15"
    tier = sys.argv[2] if len(sys.argv) > 2 else "quick"
    timeout_ms = 60_000 if tier == "quick" else 600_000
    only = sys.argv[3] if len(sys.argv) > 3 else None
    w = World()
    res = w.resolver()
    report = {"property": prop, "tier": tier, "targets": []}
    for t in targets():
        if prop not in t["props"] and not (prop == "C20" and "C20leaf" in t["props"]):
            continue
        if only and only not in t["id"]:
            continue
        if t.get("tier") == "thorough" and tier != "thorough":
            continue
        if t.get("where") == "sk":
            w.need_skrifa()
        pool = {"sk": w.sk, None: w.all}.get(t.get("where"))
        f = w.find(t["fn"][0], t["fn"][1], pool)
        entry = {"id": t["id"], "obligations": [], "status": "ok", "leaf_only": "C20leaf" in t["props"] and prop not in t["props"]}
        report["targets"].append(entry)
        if f is None:
            entry["status"] = "inconclusive"
            entry["why"] = "function not found in the MIR dump (renamed or signature changed)"
            continue
        entry["mir_name"] = f.name
        entry["basic_blocks"] = len(f.blocks)
        t0 = time.time()
        agg = {}   # obligation key -> {"verdict", "witness", "solver_s", "cases"}

        def note(key, kind, r, dt, witness=None, extra=None):
            a = agg.setdefault(key, {"kind": kind, "what": key, "verdict": "unsat", "solver_s": 0.0, "cases": 0})
            a["cases"] += 1
            a["solver_s"] = round(a["solver_s"] + dt, 3)
            if r == "sat":
                if a["verdict"] != "sat":
                    a["verdict"] = "sat"
                    a["witness"] = witness
                    if extra:
                        a.update(extra)
            elif r != "unsat" and a["verdict"] == "unsat":
                a["verdict"] = "unknown"
        try:
            cases = sign_cases(t["ins"])
            entry["cases"] = len(cases)
            reach = 0
            for signs in cases:
                # run A: panic obligations under the sign case
                eng = Engine(w.all, "int", res)
                ins, flat = mk_inputs(eng, t["ins"], signs)
                eng.ctx = [z3.BoolVal(True)]
                out = eng.run(f, ins)
                entry.setdefault("functions_encoded", sorted(eng.encoded))
                r, dt, _ = check(z3.BoolVal(True), eng.side, 20_000)
                reach += r == "sat"
                for desc, fm in eng.obligations:
                    r, dt, model = check(fm, eng.side, timeout_ms)
                    wit = [model.eval(v, model_completion=True).as_long() for v in flat] if model is not None else None
                    note(desc, "panic", r, dt, wit)
                # run B: each post-condition with its precondition as encoding context
                ii = [unwrap(x) for x in ins]
                for pidx, rel in [(p_, r_) for p_ in range(len(t["post"](ii, unwrap(out)))) for r_ in (False, True)]:
                    eng2 = Engine(w.all, "int", res)
                    eng2.release = rel
                    ins2, flat2 = mk_inputs(eng2, t["ins"], signs)
                    ii2 = [unwrap(x) for x in ins2]
                    # precondition is extracted from an Implies at the top of the claim
                    probe = t["post"](ii2, z3.Int("probe_out"))[pidx][1]
                    pre = probe.arg(0) if z3.is_implies(probe) else z3.BoolVal(True)
                    eng2.ctx = [pre]
                    out2 = eng2.run(f, ins2)
                    desc, claim = t["post"](ii2, unwrap(out2))[pidx]
                    desc += " [release profile: overflow checks off]" if rel else " [dev profile]"
                    r, dt, model = check(z3.And(eng2.ret_pc, z3.Not(claim)), eng2.side, timeout_ms)
                    wit = [model.eval(v, model_completion=True).as_long() for v in flat2] if model is not None else None
                    extra = {"encoded_result": model.eval(unwrap(out2), model_completion=True).as_long()} if model is not None and not isinstance(unwrap(out2), list) else None
                    note(desc, "post", r, dt, wit, extra)
            entry["reachable_cases"] = reach
        except Unsupported as e:
            # bit operations on symbolic operands have no integer encoding here: decide the
            # panic obligations of this function in the bit-vector encoding instead
            try:
                agg.clear()
                bcases = [sg for sg in sign_cases(t["ins"])] if "roundstate" in t["ins"] else [None]
                seen_modes = set()
                reach = 0
                for signs in bcases:
                    if signs is not None:
                        key = tuple(sg if kd == "roundstate" else None for sg, kd in zip(signs, t["ins"]))
                        if key in seen_modes:
                            continue
                        seen_modes.add(key)
                        signs = key
                    engb = Engine(w.all, "bv", res)
                    insb, flatb = mk_inputs(engb, t["ins"], signs)
                    engb.ctx = [z3.BoolVal(True)]
                    engb.run(f, insb)
                    entry.setdefault("functions_encoded", sorted(engb.encoded))
                    reach += 1
                    for desc, fm in engb.obligations:
                        r, dt, model = check(fm, engb.side, timeout_ms)
                        wit = None
                        if model is not None:
                            wit = []
                            for v in flatb:
                                mv = model.eval(v, model_completion=True)
                                wit.append(mv.as_signed_long() if z3.is_bv(mv) else mv.as_long())
                        note(desc, "panic", r, dt, wit)
                entry["reachable_cases"] = reach
                entry["cases"] = reach
                entry["encoding"] = "bit-vector (int encoding unsupported: %s); post-conditions not checked" % e
                entry["obligations"] = list(agg.values())
                entry["encode_and_solve_s"] = round(time.time() - t0, 2)
                entry["bv_cross_check"] = "n/a (bit-vector is the deciding encoding)"
            except Unsupported as e2:
                entry["status"] = "inconclusive"
                entry["why"] = "translator: %s / bv: %s" % (e, e2)
            continue
        entry["obligations"] = list(agg.values())
        entry["encode_and_solve_s"] = round(time.time() - t0, 2)
        # BV cross-check of the translator (no case split): panic obligations must not disagree
        try:
            engb = Engine(w.all, "bv", res)
            insb, flatb = mk_inputs(engb, t["ins"])
            engb.run(f, insb)
            dis = []
            for desc, fm in engb.obligations:
                r, dt, model = check(fm, engb.side, 20_000)
                a = agg.get(desc)
                if a and r in ("sat", "unsat") and a["verdict"] in ("sat", "unsat") and r != a["verdict"]:
                    dis.append(desc)
            entry["bv_cross_check"] = "agrees" if not dis else "DISAGREES on: " + "; ".join(dis)
            if dis:
                entry["status"] = "broken"
        except Unsupported as e:
            entry["bv_cross_check"] = "not translated in bv mode: " + str(e)
        # translator validation on concrete vectors: evaluate the int encoding
        try:
            eng = Engine(w.all, "int", res)
            ins, flat = mk_inputs(eng, t["ins"])
            out = unwrap(eng.run(f, ins))
            vec_out = []
            for vec in default_vectors(t["ins"]):
                s = z3.Solver()
                s.set("timeout", 20_000)
                for c in eng.side:
                    s.add(c)
                for v, c in zip(flat, vec):
                    s.add(v == c)
                panics = z3.Or([fm for _, fm in eng.obligations]) if eng.obligations else z3.BoolVal(False)
                if s.check() == z3.sat:
                    m = s.model()
                    p = z3.is_true(m.eval(panics, model_completion=True))
                    val = None if p or isinstance(out, list) else m.eval(out, model_completion=True).as_long()
                    vec_out.append({"in": list(vec), "panics": p, "out": val})
            entry["vectors"] = vec_out
        except Unsupported:
            pass
    report["mir_dump_s"] = round(w.dump_s, 1)
    print(json.dumps(report))


def default_vectors(kinds):
    base = [0, 1, -1, 64, -64, 0x8000, -0x8000, 0x10000, -0x10000, 12345, -98765, 0x7FFFFFFF, -0x80000000, 0x7FFFFFE0, 33, -33, 4660, 1 << 20, -(1 << 20), 3]
    n = sum(4 if k == "roundstate" else 1 for k in kinds)
    vecs = []
    import itertools
    import random
    rnd = random.Random(7)
    for _ in range(24):
        v = []
        for k in kinds:
            if k == "roundstate":
                v += [rnd.randrange(8), rnd.choice([0, 16, 32, 48, 63]), rnd.choice([0, 16, 32]), rnd.choice([32, 64, 128])]
            elif k == "nt16":
                v.append(rnd.choice([x for x in base if -32768 <= x <= 32767]))
            else:
                v.append(rnd.choice(base))
        vecs.append(v)
    return vecs


if __name__ == "__main__":
    main()
