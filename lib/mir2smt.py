"""Driver side of E2 (MIR -> SMT): runs lib/mir2smt_run.py under python3-vt, validates the
translator against the real functions on concrete vectors, replays solver witnesses natively and
turns the report into violations / known findings / evidence numbers."""
import hashlib
import json
import os
import re
import subprocess

import kani_run
import registry

VERIF = kani_run.VERIF


def native_eval(lines, log):
    """-> {line: result string} using the real code (dev profile)."""
    out = {}
    ft = [l for l in lines if not (l.startswith("hint::") or l.startswith("RoundState"))]
    sk = [l for l in lines if l not in ft]
    if ft:
        c = registry.CRATES["k_types"]
        c.prepare()
        td = os.path.join(kani_run.BUILD, "replay_k_types")
        rc, o, _, _ = kani_run.sh("cargo build --offline --bin vectors --target-dir %s" % td, cwd=c.path, timeout=1800)
        exe = os.path.join(td, "debug", "vectors")
        if rc != 0 or not os.path.exists(exe):
            log("native vectors build failed:\n" + o[-2000:])
            return None
        p = subprocess.run([exe], input="\n".join(ft) + "\n", stdout=subprocess.PIPE, stderr=subprocess.PIPE, text=True, timeout=300)
        for l in p.stdout.split("\n"):
            if " = " in l:
                k, v = l.split(" = ", 1)
                out[k.strip()] = v.strip()
    if sk:
        c = registry.CRATES["skrifa_in"]
        td = os.path.join(kani_run.BUILD, "replay_skrifa_in")
        vf = os.path.join(kani_run.BUILD, "e2_vectors.txt")
        open(vf, "w").write("\n".join(sk) + "\n")
        env = dict(kani_run.ENV)
        env["RUSTFLAGS"] = (env.get("RUSTFLAGS", "") + " --cfg " + kani_run.GUARD).strip()
        env["VERIF_VECTORS_FILE"] = vf
        env["RUST_BACKTRACE"] = "0"
        cmd = ("cargo test --offline -p skrifa --lib --target-dir %s outline::glyf::hint::engine::verif_harness::verif_vectors "
               "-- --exact --nocapture --test-threads 1" % td)
        rc, o, _, _ = kani_run.sh(cmd, cwd=c.path, env=env, timeout=3600)
        if rc != 0:
            log("native skrifa vectors run failed:\n" + o[-2000:])
            return None
        for l in o.split("\n"):
            if l.startswith("VEC ") and " = " in l:
                k, v = l[4:].split(" = ", 1)
                out[k.strip()] = v.strip()
    return out


def load_known():
    p = os.path.join(VERIF, "known_findings.jsonl")
    known = []
    if os.path.exists(p):
        for line in open(p):
            line = line.strip()
            if line and not line.startswith("#") and not line.startswith("fixed:"):
                known.append(json.loads(line))
    return known


def run(prop, tier, log):
    res = {"queries": 0, "nontrivial": 0, "obligations": 0, "discharged": 0, "solver_s": 0.0, "functions": [],
           "samples": [], "violations": [], "known_hits": [], "broken": [], "inconclusive": [], "detail": {}}
    rc, out, secs, to = kani_run.sh("python3-vt %s %s %s" % (os.path.join(VERIF, "lib", "mir2smt_run.py"), prop, tier),
                                    cwd=VERIF, timeout=7200)
    js = [l for l in out.split("\n") if l.startswith("{")]
    if rc != 0 or not js:
        res["broken"].append("mir2smt_run.py failed: " + out[-1500:])
        return res
    rep = json.loads(js[-1])
    log("E2: MIR dump %.0fs, %d target functions" % (rep.get("mir_dump_s", 0), len(rep["targets"])))
    # native evaluation of every vector and every witness
    lines = []
    for t in rep["targets"]:
        for v in t.get("vectors", []):
            lines.append("%s %s" % (t["id"], " ".join(str(x) for x in v["in"])))
        for o in t.get("obligations", []):
            if o.get("witness"):
                lines.append("%s %s" % (t["id"], " ".join(str(x) for x in o["witness"])))
    native = native_eval(sorted(set(lines)), log) if lines else {}
    if native is None:
        res["broken"].append("native evaluation of E2 vectors failed")
        return res
    known = load_known()
    for t in rep["targets"]:
        tid = t["id"]
        fns = t.get("functions_encoded", [])
        res["functions"] += ["mir:" + f for f in fns]
        if t["status"] == "inconclusive":
            res["inconclusive"].append(("E2 " + tid, t.get("why", ""), 0))
            continue
        if t["status"] == "broken":
            res["broken"].append("E2 %s: int and bit-vector encodings disagree (%s)" % (tid, t.get("bv_cross_check")))
        # translator validation
        nvec = 0
        for v in t.get("vectors", []):
            key = "%s %s" % (tid, " ".join(str(x) for x in v["in"]))
            nat = native.get(key)
            if nat is None:
                continue
            nvec += 1
            if v["panics"]:
                ok = nat.startswith("panic")
            else:
                ok = (not nat.startswith("panic")) and int(nat) == v["out"]
            if not ok:
                res["broken"].append("E2 translator validation failed for %s on %s: encoding says %s, real code says %s"
                                     % (tid, v["in"], "panic" if v["panics"] else v["out"], nat))
        reach = t.get("reachable_cases", 0)
        for o in t["obligations"]:
            res["queries"] += o["cases"]
            res["obligations"] += 1
            res["solver_s"] += o["solver_s"]
            if reach:
                res["nontrivial"] += 1
            if o["verdict"] == "unsat":
                res["discharged"] += 1
                continue
            if o["verdict"] != "sat":
                res["inconclusive"].append(("E2 %s / %s" % (tid, o["what"][:60]), "solver: " + o["verdict"], o["solver_s"]))
                continue
            key = "%s %s" % (tid, " ".join(str(x) for x in o["witness"]))
            nat = native.get(key, "")
            is_overflow = "overflow" in o["what"]
            if o["kind"] == "panic":
                cprop = "C20" if is_overflow else ("C02" if tid.startswith("hint::") or tid.startswith("RoundState") else "C01")
                reproduced = nat.startswith("panic")
                kind = "overflow" if is_overflow else "panic"
            else:
                cprop = "C15" if not (tid.startswith("hint::") or tid.startswith("RoundState")) else "C20"
                enc = o.get("encoded_result")
                if "[release profile" in o["what"]:
                    # the dev-profile native run may panic where release wraps; compare only when it returns
                    reproduced = nat.startswith("panic") or (enc is not None and int(nat) == enc)
                else:
                    reproduced = (not nat.startswith("panic")) and enc is not None and int(nat) == enc
                kind = "postcondition"
            fkey = {"property": cprop, "kind": kind, "function": tid, "description": re.sub(r" @bb\d+", "", o["what"])}
            rp = write_replay(prop, tid, o, fkey, nat)
            entry = {"prop": cprop, "key": fkey, "replay": rp, "harness": "E2 " + tid, "desc": o["what"]}
            log("   E2 %s: %s witness=%s native=%s -> %s" % (tid, o["what"][:70], o["witness"], nat[:60], "reproduced" if reproduced else "NOT reproduced"))
            if not reproduced:
                res["broken"].append("E2 witness for %s / %s does not reproduce natively (native: %s)" % (tid, o["what"][:60], nat))
                continue
            if t.get("leaf_only"):
                res["detail"].setdefault("unguarded_leaves", []).append({"function": tid, "what": o["what"], "witness": o["witness"]})
                continue
            if cprop != prop:
                res["detail"].setdefault("belongs_to_other_property", []).append({"property": cprop, "function": tid, "what": o["what"]})
                continue
            k = None
            for kf in known:
                if all(fkey.get(a) == b for a, b in kf.get("key", {}).items()):
                    k = kf
            if k:
                res["known_hits"].append((entry, k))
            else:
                res["violations"].append(entry)
        res["samples"].append({"target": tid, "mir_function": t.get("mir_name"), "basic_blocks": t.get("basic_blocks"),
                               "sign_cases": t.get("cases"), "obligations": [(o["what"][:90], o["verdict"]) for o in t["obligations"]],
                               "bv_cross_check": t.get("bv_cross_check"), "vectors_validated_against_real_code": nvec,
                               "solve_s": t.get("encode_and_solve_s")})
    res["functions"] = sorted(set(res["functions"]))
    res["solver_s"] = round(res["solver_s"], 2)
    res["detail"]["mir_dump_s"] = rep.get("mir_dump_s")
    res["detail"]["bounds"] = "full machine width (no bound): loop-free functions, every input value; sign-case split with change of variables"
    return res


def write_replay(prop, tid, o, fkey, nat):
    d = os.path.join(VERIF, "replay", prop)
    os.makedirs(d, exist_ok=True)
    tag = hashlib.sha1(json.dumps(fkey, sort_keys=True).encode()).hexdigest()[:8]
    p = os.path.join(d, "e2_%s__%s.replay" % (re.sub(r"\W+", "_", tid), tag))
    open(p, "w").write("E2::%s\n# check=%s\n# native=%s\n%s\n" % (tid, json.dumps(fkey, sort_keys=True), nat,
                                                                 " ".join(str(x) for x in o["witness"])))
    return p
