"""Native replay of solver counterexamples: the same harness function is compiled with the
repository's ordinary toolchain (kani API replaced by harness/shim/shim.rs) and executed on the
concrete values, in the dev profile (overflow checks + debug assertions: what Kani models and
what C20 names) and in --release (what users run; what C01/C02 name)."""
import hashlib
import json
import os
import re

import kani_run
import registry

VERIF = kani_run.VERIF
REPLAY_TIMEOUT = 40


def write_replay(prop, h, chk, trace, key):
    d = os.path.join(VERIF, "replay", prop)
    os.makedirs(d, exist_ok=True)
    body = h["name"] + "\n"
    body += "# crate=%s\n" % h["crate"]
    body += "# check=%s\n" % json.dumps(key, sort_keys=True)
    for v in trace["values"]:
        body += "".join("%02x" % b for b in v) + "\n"
    tag = hashlib.sha1((h["name"] + json.dumps(key, sort_keys=True)).encode()).hexdigest()[:8]
    p = os.path.join(d, "%s__%s.replay" % (h["fn"], tag))
    open(p, "w").write(body)
    return p


_built = {}


def _build_ext(crate, release, log):
    k = (crate.name, release)
    if k in _built:
        return _built[k]
    crate.prepare()
    td = os.path.join(kani_run.BUILD, "replay_" + crate.name)
    cmd = "cargo build --offline --bin replay --target-dir %s%s" % (td, " --release" if release else "")
    rc, out, secs, to = kani_run.sh(cmd, cwd=crate.path, timeout=1800)
    exe = os.path.join(td, "release" if release else "debug", "replay")
    ok = rc == 0 and os.path.exists(exe)
    if not ok:
        log("replay build failed for %s:\n%s" % (crate.name, out[-3000:]))
    _built[k] = exe if ok else None
    return _built[k]


def _run_ext(crate, path, release, log):
    exe = _build_ext(crate, release, log)
    if not exe:
        return {"built": False}
    rc, out, secs, to = kani_run.sh("RUST_BACKTRACE=0 %s %s" % (exe, path), timeout=REPLAY_TIMEOUT)
    return {"built": True, "rc": rc, "out": out[-4000:], "timed_out": to}


def _run_incrate(crate, h, path, release, log):
    td = os.path.join(kani_run.BUILD, "replay_" + crate.name)
    env = dict(kani_run.ENV)
    env["RUSTFLAGS"] = (env.get("RUSTFLAGS", "") + " --cfg " + kani_run.GUARD).strip()
    env["VERIF_REPLAY_FILE"] = path
    env["RUST_BACKTRACE"] = "0"
    test = h["mod"] + "::verif_replay"
    cmd = "cargo test --offline -p %s --lib --target-dir %s%s %s -- --exact --nocapture --test-threads 1" % (
        crate.package, td, " --release" if release else "", test)
    # build first without the run timeout
    rc, out, secs, to = kani_run.sh(cmd.replace(" -- --exact", " --no-run -- --exact"), cwd=crate.path,
                                    env=env, timeout=3600)
    if rc != 0:
        log("in-crate replay build failed:\n" + out[-3000:])
        return {"built": False}
    rc, out, secs, to = kani_run.sh(cmd, cwd=crate.path, env=env, timeout=REPLAY_TIMEOUT + 60)
    return {"built": True, "rc": rc, "out": out[-4000:], "timed_out": to}


def run_replay(h, path, log, dev_only=False):
    crate = registry.CRATES[h["crate"]]
    res = {}
    if dev_only:
        res["release"] = {"built": True, "rc": 0, "out": "VERIF-REPLAY-COMPLETED (release replay skipped: overflow checks exist only in the dev profile)", "timed_out": False}
    for release in ((False,) if dev_only else (False, True)):
        if crate.incrate:
            r = _run_incrate(crate, h, path, release, log)
        else:
            r = _run_ext(crate, path, release, log)
        res["release" if release else "dev"] = r
    parts = []
    for k in ("dev", "release"):
        r = res[k]
        if not r.get("built"):
            parts.append(k + ": build failed")
        elif r["timed_out"]:
            parts.append(k + ": HANG (> %ds)" % REPLAY_TIMEOUT)
        elif "VERIF-REPLAY-COMPLETED" in r["out"]:
            parts.append(k + ": completed without panic")
        else:
            m = re.search(r"panicked at ([^\n]*)\n([^\n]*)", r["out"])
            parts.append(k + ": " + (("panic: " + m.group(2).strip()[:140] + " @ " + m.group(1)[:80]) if m else "rc=%s" % r["rc"]))
    res["summary"] = "; ".join(parts)
    return res


def _panicked(r):
    return r.get("built") and not r["timed_out"] and "VERIF-REPLAY-COMPLETED" not in r["out"] \
        and ("panicked at" in r["out"] or r["rc"] not in (0,))


def judge(kind, desc, outcome):
    dev, rel = outcome["dev"], outcome["release"]
    for r in (dev, rel):
        if r.get("built") and "VERIF-REPLAY-DIVERGED" in r.get("out", ""):
            return "diverged"
    if not dev.get("built") or not rel.get("built"):
        return "diverged"
    if kind == "unwind":
        return "reproduced" if (dev["timed_out"] or rel["timed_out"]) else "not-reproduced"
    if kind in ("overflow", "debug_assert"):
        # the overflow-checked, assertion-enabled configuration is the dev profile
        if dev["timed_out"]:
            return "not-reproduced"
        if _panicked(dev):
            m = re.search(r"attempt to [a-z ]+ with overflow", desc)
            if m and m.group(0) not in dev["out"]:
                # a different panic came first; still a dev-profile panic, but not this one
                return "not-reproduced"
            return "reproduced"
        return "not-reproduced"
    if kind == "panic":
        if rel["timed_out"] or _panicked(rel) or _panicked(dev) or dev["timed_out"]:
            return "reproduced"
        return "not-reproduced"
    # postcondition: the harness' own assert must fail natively
    if _panicked(dev) or _panicked(rel) or dev["timed_out"] or rel["timed_out"]:
        return "reproduced"
    return "not-reproduced"


def cli_replay(path, log):
    first = open(path).readline().strip()
    if first.startswith("E2::"):
        import mir2smt
        args = [l for l in open(path).read().split("\n")[1:] if l and not l.startswith("#")][0]
        r = mir2smt.native_eval(["%s %s" % (first[4:], args)], log)
        log(json.dumps(r))
        return 0
    hs = [h for h in registry.scan() if h["name"] == first]
    if not hs:
        log("unknown harness " + first)
        return 2
    registry.write_dispatch(hs[0]["crate"], registry.scan()) if not registry.CRATES[hs[0]["crate"]].incrate \
        else registry.write_incrate_dispatch(registry.scan())
    out = run_replay(hs[0], path, log)
    log(out["summary"])
    for k in ("dev", "release"):
        log("---- %s ----\n%s" % (k, out[k].get("out", "")[-1500:]))
    return 0
