"""Harness registry: which harness crates exist, which harness functions they contain (scanned
from the harness sources on every run), and which property each harness serves.

Annotations are read from the comment block directly above a harness:
    // @tier thorough          harness only runs in the thorough tier (default: quick)
    // @timeout 600            per-harness wall-clock cap in seconds (default per tier)
    // @c20                    arithmetic-overflow / debug-assert results of this harness count for C20
    // @bound <free text>      the stated bound, copied into the evidence
    // @assume <free text>     an assumption/stub/cut, copied into the evidence
"""
import glob
import os
import re

from kani_run import Crate, VERIF, REPO

H = os.path.join(VERIF, "harness")

CRATES = {
    "k_types": Crate("k_types", os.path.join(H, "k_types")),
    "k_read": Crate("k_read", os.path.join(H, "k_read"), stubbing=True),
    "k_write": Crate("k_write", os.path.join(H, "k_write"), stubbing=True),
    # in-crate harnesses (hooked with #[cfg(googlefonts_fontations_verif)] #[path=...] mod verif_harness)
    "read_in": Crate("read_in", os.path.join(REPO, "read-fonts"), incrate=True, package="read-fonts"),
    "skrifa_in": Crate("skrifa_in", os.path.join(REPO, "skrifa"), incrate=True, package="skrifa"),
    "write_in": Crate("write_in", os.path.join(REPO, "write-fonts"), incrate=True,
                      package="write-fonts", stubbing=True),
}

# in-crate harness files: file under harness/incrate -> (crate key, module path of the hook)
INCRATE_FILES = {
    "bitpage.rs": ("read_in", "collections::int_set::bitpage::verif_harness"),
    "bitset.rs": ("read_in", "collections::int_set::bitset::verif_harness"),
    "int_set.rs": ("read_in", "collections::int_set::verif_harness"),
    "range_set.rs": ("read_in", "collections::range_set::verif_harness"),
    "variations.rs": ("read_in", "tables::variations::verif_harness"),
    "engine.rs": ("skrifa_in", "outline::glyf::hint::engine::verif_harness"),
    "engine_ops.rs": ("skrifa_in", "outline::glyf::hint::engine::verif_harness"),
    "decycler.rs": ("skrifa_in", "decycler::verif_harness"),
    "glyf_memory.rs": ("skrifa_in", "outline::glyf::memory::verif_harness"),
    "path.rs": ("skrifa_in", "outline::path::verif_harness"),
    "write_hook.rs": ("write_in", "write::verif_harness"),
    "ivs_builder.rs": ("write_in", "tables::variations::ivs_builder::verif_harness"),
    "loca.rs": ("write_in", "tables::loca::verif_harness"),
    "simple.rs": ("write_in", "tables::glyf::simple::verif_harness"),
    "cmap.rs": ("write_in", "tables::cmap::verif_harness"),
    "font_builder.rs": ("write_in", "font_builder::verif_harness"),
}

FN_RE = re.compile(r"pub fn (c\d\d_\w+)\(\)")
MACRO_RE = re.compile(r"^\s*\w+!\(\s*(c\d\d_\w+)\s*,", re.M)
ANN_RE = re.compile(r"@([\w-]+)(?:[ \t]+([^\n]*))?")


def _scan_file(path):
    """-> list of (fn_name, annotations dict)"""
    src = open(path).read()
    lines = src.split("\n")
    out = []
    sub = ""
    for i, line in enumerate(lines):
        mm = re.match(r"pub mod (\w+) \{", line)
        if mm:
            sub = mm.group(1) + "::"
        elif line == "}":
            sub = ""
        m = FN_RE.search(line) or MACRO_RE.match(line)
        if not m:
            continue
        if "macro_rules" in line or "$name" in line:
            continue
        ann = {"bound": [], "assume": []}
        j = i - 1
        while j >= 0 and (lines[j].strip().startswith("//") or lines[j].strip().startswith("#[")):
            s = lines[j].strip()
            if s.startswith("//"):
                for am in ANN_RE.finditer(s):
                    k, v = am.group(1), (am.group(2) or "").strip()
                    if k in ("bound", "assume"):
                        ann[k].insert(0, v)
                    elif k in ("tier", "timeout", "c20", "c01", "c02", "mem", "expect", "vacuity-ok", "cbmc", "playback-first"):
                        ann[k] = v or True
            j -= 1
        ann["submod"] = sub
        k = i - 1
        while k >= 0 and k > i - 8:
            um = re.search(r"kani::unwind\((\d+)\)", lines[k])
            if um:
                ann["unwind"] = int(um.group(1))
                break
            k -= 1
        out.append((m.group(1), ann))
    return out


def file_level_annotations(path):
    """`//! @assume ...` / `//! @bound ...` lines at the top of a harness file apply to all of it"""
    ann = {"bound": [], "assume": []}
    for line in open(path).read().split("\n"):
        s = line.strip()
        if not s.startswith("//!"):
            if s and not s.startswith("//"):
                break
            continue
        for am in ANN_RE.finditer(s):
            k, v = am.group(1), (am.group(2) or "").strip()
            if k in ann:
                ann[k].append(v)
    return ann


def scan():
    """-> list of harness dicts {crate, name (fully qualified), fn, file, prop, ann}"""
    hs = []
    for key in ("k_types", "k_read", "k_write"):
        c = CRATES[key]
        for f in sorted(glob.glob(os.path.join(c.path, "src", "*.rs"))):
            mod = os.path.basename(f)[:-3]
            if mod in ("lib", "dispatch"):
                continue
            fa = file_level_annotations(f)
            for fn, ann in _scan_file(f):
                ann["bound"] = fa["bound"] + ann["bound"]
                ann["assume"] = fa["assume"] + ann["assume"]
                hs.append({"crate": key, "name": "%s::%s%s" % (mod, ann.get("submod", ""), fn), "fn": fn, "file": f,
                           "mod": mod, "prop": "C" + fn[1:3], "ann": ann})
    for fname, (key, modpath) in INCRATE_FILES.items():
        f = os.path.join(H, "incrate", fname)
        if not os.path.exists(f):
            continue
        fa = file_level_annotations(f)
        for fn, ann in _scan_file(f):
            ann["bound"] = fa["bound"] + ann["bound"]
            ann["assume"] = fa["assume"] + ann["assume"]
            hs.append({"crate": key, "name": "%s::%s" % (modpath, fn), "fn": fn, "file": f,
                       "mod": modpath, "prop": "C" + fn[1:3], "ann": ann})
    return hs


def write_dispatch(crate_key, harnesses):
    """generate the native replay dispatch table for an external harness crate"""
    c = CRATES[crate_key]
    items = [h for h in harnesses if h["crate"] == crate_key]
    body = "pub fn dispatch(name: &str) -> Option<fn()> {\n    Some(match name {\n"
    for h in items:
        body += '        "%s" => crate::%s as fn(),\n' % (h["name"], h["name"])
    body += "        _ => return None,\n    })\n}\n"
    p = os.path.join(c.path, "src", "dispatch.rs")
    old = open(p).read() if os.path.exists(p) else None
    if old != body:
        open(p, "w").write(body)


def write_incrate_dispatch(harnesses):
    """one dispatch file per in-crate harness file, included by that file"""
    done = set()
    for fname, (key, modpath) in INCRATE_FILES.items():
        f = os.path.join(H, "incrate", fname)
        if not os.path.exists(f) or modpath in done:
            continue
        done.add(modpath)
        items = [h for h in harnesses if h["mod"] == modpath]
        body = "fn verif_dispatch(name: &str) -> Option<fn()> {\n    Some(match name {\n"
        for h in items:
            body += '        "%s" => %s as fn(),\n' % (h["name"], h["fn"])
        body += "        _ => return None,\n    })\n}\n"
        p = os.path.join(H, "incrate", fname[:-3] + "_dispatch.rs")
        old = open(p).read() if os.path.exists(p) else None
        if old != body:
            open(p, "w").write(body)
