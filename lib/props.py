"""Per-property configuration: which harnesses decide it, generators to run first, the
assumptions every harness of the property shares."""

COMMON = [
    "rustc + Kani 0.68 MIR->goto translation and Kani's std models are trusted; CBMC 6.11 + cadical decide the queries",
    "Kani models the dev profile (overflow checks and debug assertions on) on a 64-bit target; allocation never fails",
    "every loop is unwound to the harness' #[kani::unwind] bound with unwinding assertions ON (a too-small bound fails, it never truncates silently)",
    "a failing check is reported only after the solver's concrete values re-execute natively (dev and --release) and reproduce it",
]


def _gen_read_walk(log):
    import gen_read_walk
    gen_read_walk.generate(log)


def _gen_opcodes(log):
    import gen_opcodes
    gen_opcodes.generate(log)


PROPS = {
    "C15": {
        "prefixes": ["c15"],
        "e2": False,
        "assumptions": COMMON + [
            "reference models are exact-integer (i128 / SMT Int) transcriptions of the property text",
            "F26Dot6's Mul/Div operators are judged as the raw-bit FT_MulFix/FT_DivFix kernels they share with Fixed",
            "float harnesses rely on CBMC's bit-precise IEEE-754 model (round-to-nearest-even)",
        ],
        "explanation": "font-types scalar/fixed-point types vs exact reference models, full machine width unless a harness states a slice",
    },
}


def select(prop, tier, seed, allh):
    spec = PROPS[prop]
    out = []
    for h in allh:
        home = h["fn"][:3]
        if home in spec["prefixes"] or (prop == "C20" and "c20" in h["ann"]):
            t = h["ann"].get("tier", "quick")
            if prop == "C20" and home != "c20" and isinstance(h["ann"].get("c20"), str) and h["ann"]["c20"]:
                t = h["ann"]["c20"]
            if t == "thorough" and tier != "thorough":
                continue
            out.append(h)
    sel = spec.get("select")
    if sel:
        out = sel(out, tier, seed)
    return out
