"""Per-property configuration: which harnesses decide it, generators to run first, the
assumptions every harness of the property shares."""

COMMON = [
    "rustc + Kani 0.68 MIR->goto translation and Kani's std models are trusted; CBMC 6.11 + cadical decide the queries",
    "Kani models the dev profile (overflow checks and debug assertions on) on a 64-bit target; allocation never fails",
    "every loop is unwound to the harness' #[kani::unwind] bound with unwinding assertions ON (a too-small bound fails, it never truncates silently)",
    "a failing check is reported only after the solver's concrete values re-execute natively (dev and --release) and reproduce it",
]


def _gen_read_walk(log):
    import sys, os
    sys.path.insert(0, os.path.join(os.path.dirname(os.path.dirname(os.path.abspath(__file__))), "gen"))
    import gen_read_walk
    gen_read_walk.generate(log)


def _gen_opcodes(log):
    import sys, os
    sys.path.insert(0, os.path.join(os.path.dirname(os.path.dirname(os.path.abspath(__file__))), "gen"))
    import gen_opcodes
    gen_opcodes.generate(log)


PROPS = {
    "C01": {
        "prefixes": ["c01"],
        "select": lambda hs, tier, seed: hs if tier == "thorough" else
        _rotate(_rotate(hs, tier, seed, "c01_read_", 110), tier, seed, "c01_hw_", 45),
        "generators": [_gen_read_walk],
        "assumptions": COMMON + [
            "inputs are byte strings of length <= N (N per harness, in `bounds`) and symbolic read arguments; longer inputs are outside the claim",
            "offsets are followed to walk depth DEPTH (harness/k_read/src/lib.rs); deeper chains are outside the claim",
            "thread schedules and 'wherever the bytes sit in memory' are not encodable in Kani; only the relocation harnesses (c01_reloc_*) decide position independence, for the types they name",
        ],
        "explanation": "every FontRead/FontReadWithArgs impl found in /repo/read-fonts is read from a symbolic buffer and every generated accessor (and each hand-written accessor whose arguments can be synthesised) is called on the result; any reachable panic or unbounded loop fails",
    },
    "C02": {
        "prefixes": ["c02"],
        "generators": [_gen_opcodes],
        "select": lambda hs, tier, seed: _rotate(hs, tier, seed, "c02_op2_", 120) if tier == "thorough" else
        _rotate(_rotate(hs, tier, seed, "c02_op2_", 0), tier, seed, "c02_op_", 200),
        "assumptions": COMMON + [
            "the interpreter is stepped from a directly constructed state (see harness/incrate/engine.rs header), not through HintingInstance/OutlineGlyph::draw; whole-font drawing, the CFF hinter, the auto-hinter and the entire IFT client are outside the claim",
        ],
        "explanation": "TrueType interpreter: one decode+dispatch per opcode (256 queries) from an arbitrary stack/zones/cvt/storage state; two-step setter;op queries (thorough, VERIF_SEED-rotated subset); budget/stack/definition kernels",
    },
    "C06": {
        "prefixes": ["c06"],
        "assumptions": COMMON + ["FontBuilder::build's own assembly (ordering, offsets, padding placement, insertion-order independence, copy_missing_tables) is NOT decided: BTreeMap/Vec churn is out of CBMC's reach (probe: > 16 min, 7 GB)"],
        "explanation": "checksum arithmetic vs the spec, additivity over padded concatenation, head-adjustment identity, and FontRef::table_data on a symbolic 3-record directory",
    },
    "C08": {
        "prefixes": ["c08"],
        "assumptions": COMMON + ["reader half: lookups vs the spec on symbolic subtables; writer half: create_format_4 kernels (write-fonts hook) where built"],
        "explanation": "cmap format 4/12 lookup and iteration vs a transcription of the OpenType spec, for every code point",
    },
    "C09": {
        "prefixes": ["c09"],
        "assumptions": COMMON,
        "explanation": "simple-glyph decoding vs the glyf spec; encoder kernels where built",
    },
    "C10": {
        "prefixes": ["c10"],
        "assumptions": COMMON,
        "explanation": "packed point numbers / packed deltas vs the spec decoders",
    },
    "C11": {
        "prefixes": ["c11"],
        "assumptions": COMMON,
        "explanation": "axis normalisation, avar segment maps, region tent scalars and delta-set index maps vs their specified values",
    },
    "C12": {
        "prefixes": ["c12"],
        "assumptions": COMMON,
        "explanation": "scratch-memory carving: the advertised buffer size always suffices, slices have the documented lengths, are aligned and pairwise disjoint; to_path command-stream grammar on 3-point outlines (recording pen)",
    },
    "C13": {
        "prefixes": ["c13"],
        "assumptions": COMMON,
        "explanation": "the cycle/depth guard (Decycler) that bounds paint-graph recursion: one step from an arbitrary state, cycle detection for periodic id sequences, exact depth limit",
    },
    "C14": {
        "prefixes": ["c14"],
        "assumptions": COMMON,
        "explanation": "BitPage (the 512-bit page every integer set is made of) against the mathematical set, one operation from an arbitrary page",
    },
    "C16": {
        "prefixes": ["c16"],
        "assumptions": COMMON,
        "explanation": "coverage / class-definition lookups vs the spec for every glyph id (reader side only)",
    },
    "C20": {
        "prefixes": ["c20"],
        "generators": [_gen_read_walk, _gen_opcodes],
        "select": lambda hs, tier, seed: _c20_select(hs, tier, seed),
        "assumptions": COMMON + [
            "C20 is a reading of the same solver runs as C01/C02/C06-C16: every `attempt to ... with overflow` check and every debug_assert on the explored paths; a candidate counts only if the native dev-profile replay panics with the same message",
            "inputs are font bytes through public read entry points, public API arguments, or interpreter state one real instruction away from the default state",
        ],
        "explanation": "overflow / debug-assertion freedom on every path the other properties' harnesses explore",
    },
    "C15": {
        "prefixes": ["c15"],
        "e2": True,
        "assumptions": COMMON + [
            "reference models are exact-integer (i128 / SMT Int) transcriptions of the property text",
            "F26Dot6's Mul/Div operators are judged as the raw-bit FT_MulFix/FT_DivFix kernels they share with Fixed",
            "float harnesses rely on CBMC's bit-precise IEEE-754 model (round-to-nearest-even)",
        ],
        "explanation": "font-types scalar/fixed-point types vs exact reference models, full machine width unless a harness states a slice",
    },
}


def _rotate(hs, tier, seed, prefix, n):
    """keep everything not starting with `prefix`; of those that do, a seed-rotated window of n"""
    rot = sorted([h for h in hs if h["fn"].startswith(prefix)], key=lambda h: h["fn"])
    rest = [h for h in hs if not h["fn"].startswith(prefix)]
    n = min(n, len(rot))
    if rot and n > 0:
        k = (seed * n) % len(rot)
        rot = (rot + rot)[k:k + n]
    elif n == 0:
        rot = []
    return rest + rot


def _c20_select(hs, tier, seed):
    hs = _rotate(hs, tier, seed, "c02_op2_", 60 if tier == "thorough" else 0)
    if tier == "quick":
        # quick (15 min wall budget): the hand-written harnesses, a seed-rotated quarter of the one-step
        # opcode queries and a window of accessor queries; everything runs in the thorough tier
        hs = [h for h in hs if not h["fn"].startswith("c01_read_") and not h["fn"].startswith("c01_hw_")] \
            + _rotate([h for h in hs if h["fn"].startswith("c01_hw_")], tier, seed, "c01_hw_", 30)
        hs = _rotate(hs, tier, seed, "c02_op_", 110)
    return hs


def select(prop, tier, seed, allh):
    spec = PROPS[prop]
    out = []
    for h in allh:
        home = h["fn"][:3]
        if home in spec["prefixes"] or (prop == "C20" and "c20" in h["ann"]) or (prop.lower() in h["ann"] and prop in ("C01", "C02")):
            t = h["ann"].get("tier", "quick")
            key = prop.lower()
            if home not in spec["prefixes"] and isinstance(h["ann"].get(key), str) and h["ann"][key]:
                t = h["ann"][key]
            if t == "thorough" and tier != "thorough":
                continue
            out.append(h)
    sel = spec.get("select")
    pool = list(out)
    if sel:
        out = sel(out, tier, seed)
    if tier == "quick":
        # change-focused additions (see lib/focus.py): queries over files that differ from the baseline,
        # including thorough-tier ones (they run under the quick per-query cap)
        import focus
        files = focus.changed_files()
        want = focus.focus(allh, files)
        names = set(h["name"] for h in out)
        extra = []
        for h in allh:
            home = h["fn"][:3]
            mine = home in spec["prefixes"] or (prop == "C20" and "c20" in h["ann"]) or (prop.lower() in h["ann"] and prop in ("C01", "C02"))
            if mine and h["name"] in want and h["name"] not in names:
                h = dict(h)
                h["focus"] = True
                extra.append(h)
        if len(extra) > 60:
            # a widely shared file changed: thorough-tier (calibrated slow) queries would only eat the budget
            extra = [h for h in extra if h["ann"].get("tier", "quick") != "thorough"]
        for h in out:
            if h["name"] in want:
                h["focus"] = True
        out = extra + out
    return out
